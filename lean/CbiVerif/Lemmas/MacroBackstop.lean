import CbiVerif.Lemmas.MacroObj
/-! # C03 `backstop`: for every table (object-like or not, any `Cfg`) the number of nested token streams never
    exceeds the limit: `stack.length ≤ c.lim` is an invariant of `MX.step`. -/
namespace CbiVerif.MX
open CbiVerif.PP

theorem popAll_ok_len (adv : Bool) : ∀ (rest : List Helper) (top : Helper) (ne : NoExp) (t : Helper) (r : List Helper) (n : NoExp),
    popAll adv top rest ne = .ok t r n → r.length ≤ rest.length := by
  intro rest
  induction rest with
  | nil =>
    intro top ne t r n h
    unfold popAll at h
    split at h
    · cases h
    · cases h; exact Nat.le_refl _
  | cons b rest' ih =>
    intro top ne t r n h
    unfold popAll at h
    split at h
    · simp only at h
      split at h
      · cases h
      · have := ih _ _ _ _ _ h
        simp only [List.length_cons]; omega
    · cases h; exact Nat.le_refl _

theorem popAll_eop_len (adv : Bool) : ∀ (rest : List Helper) (top : Helper) (ne : NoExp) (t : Helper) (r : List Helper) (n : NoExp),
    popAll adv top rest ne = .eop t r n → r.length ≤ rest.length := by
  intro rest
  induction rest with
  | nil =>
    intro top ne t r n h
    unfold popAll at h
    split at h
    · cases h; exact Nat.le_refl _
    · cases h
  | cons b rest' ih =>
    intro top ne t r n h
    unfold popAll at h
    split at h
    · simp only at h
      split at h
      · cases h; exact Nat.le_refl _
      · have := ih _ _ _ _ _ h
        simp only [List.length_cons]; omega
    · cases h

theorem consume_ok_len (adv : Bool) (top : Helper) (rest : List Helper) (ne : NoExp) (x : Tok) (t : Helper) (r : List Helper) (n : NoExp)
    (h : consume adv top rest ne = .ok x t r n) : r.length ≤ rest.length := by
  unfold consume at h
  split at h
  · cases h
  · rename_i t0 r0 n0 hp
    split at h
    · cases h; exact popAll_ok_len adv _ _ _ _ _ _ hp
    · cases h

theorem consume_eop_len (adv : Bool) (top : Helper) (rest : List Helper) (ne : NoExp) (t : Helper) (r : List Helper) (n : NoExp)
    (h : consume adv top rest ne = .eop t r n) : r.length ≤ rest.length := by
  unfold consume at h
  split at h
  · rename_i t0 r0 n0 hp
    cases h; exact popAll_eop_len adv _ _ _ _ _ _ hp
  · split at h
    · cases h
    · cases h

theorem collectArgs_ok_len (adv : Bool) : ∀ (fuel : Nat) (top : Helper) (rest : List Helper) (ne : NoExp) (args : List (List Tok)) (cur : List Tok) (depth : Nat)
    (a : List (List Tok)) (t : Helper) (r : List Helper) (n : NoExp),
    collectArgs adv fuel top rest ne args cur depth = .ok a t r n → r.length ≤ rest.length := by
  intro fuel
  induction fuel with
  | zero => intro top rest ne args cur depth a t r n h; simp [collectArgs] at h
  | succ f ih =>
    intro top rest ne args cur depth a t r n h
    unfold collectArgs at h
    split at h
    · cases h
    · cases h
    · rename_i tok top' rest' ne' hc
      have hl := consume_ok_len adv _ _ _ _ _ _ _ hc
      split at h
      · exact Nat.le_trans (ih _ _ _ _ _ _ _ _ _ _ h) hl
      · split at h
        · exact Nat.le_trans (ih _ _ _ _ _ _ _ _ _ _ h) hl
        · split at h
          · split at h
            · cases h; exact hl
            · exact Nat.le_trans (ih _ _ _ _ _ _ _ _ _ _ h) hl
          · exact Nat.le_trans (ih _ _ _ _ _ _ _ _ _ _ h) hl

theorem collectArgs_eop_len (adv : Bool) : ∀ (fuel : Nat) (top : Helper) (rest : List Helper) (ne : NoExp) (args : List (List Tok)) (cur : List Tok) (depth : Nat)
    (t : Helper) (r : List Helper) (n : NoExp),
    collectArgs adv fuel top rest ne args cur depth = .eop t r n → r.length ≤ rest.length := by
  intro fuel
  induction fuel with
  | zero => intro top rest ne args cur depth t r n h; simp [collectArgs] at h
  | succ f ih =>
    intro top rest ne args cur depth t r n h
    unfold collectArgs at h
    split at h
    · cases h; rename_i hc; exact consume_eop_len adv _ _ _ _ _ _ hc
    · cases h
    · rename_i tok top' rest' ne' hc
      have hl := consume_ok_len adv _ _ _ _ _ _ _ hc
      split at h
      · exact Nat.le_trans (ih _ _ _ _ _ _ _ _ _ h) hl
      · split at h
        · exact Nat.le_trans (ih _ _ _ _ _ _ _ _ _ h) hl
        · split at h
          · split at h
            · cases h
            · exact Nat.le_trans (ih _ _ _ _ _ _ _ _ _ h) hl
          · exact Nat.le_trans (ih _ _ _ _ _ _ _ _ _ h) hl

-- the same two facts for the collection loop of a variadic call
theorem collectArgsV_ok_len (adv : Bool) (k : Nat) : ∀ (fuel : Nat) (top : Helper) (rest : List Helper) (ne : NoExp) (args : List (List Tok)) (cur : List Tok) (depth : Nat)
    (a : List (List Tok)) (t : Helper) (r : List Helper) (n : NoExp),
    collectArgsV adv k fuel top rest ne args cur depth = .ok a t r n → r.length ≤ rest.length := by
  intro fuel
  induction fuel with
  | zero => intro top rest ne args cur depth a t r n h; simp [collectArgsV] at h
  | succ f ih =>
    intro top rest ne args cur depth a t r n h
    unfold collectArgsV at h
    split at h
    · cases h
    · cases h
    · rename_i tok top' rest' ne' hc
      have hl := consume_ok_len adv _ _ _ _ _ _ _ hc
      split at h
      · exact Nat.le_trans (ih _ _ _ _ _ _ _ _ _ _ h) hl
      · split at h
        · exact Nat.le_trans (ih _ _ _ _ _ _ _ _ _ _ h) hl
        · split at h
          · split at h
            · cases h; exact hl
            · exact Nat.le_trans (ih _ _ _ _ _ _ _ _ _ _ h) hl
          · exact Nat.le_trans (ih _ _ _ _ _ _ _ _ _ _ h) hl

theorem collectArgsV_eop_len (adv : Bool) (k : Nat) : ∀ (fuel : Nat) (top : Helper) (rest : List Helper) (ne : NoExp) (args : List (List Tok)) (cur : List Tok) (depth : Nat)
    (t : Helper) (r : List Helper) (n : NoExp),
    collectArgsV adv k fuel top rest ne args cur depth = .eop t r n → r.length ≤ rest.length := by
  intro fuel
  induction fuel with
  | zero => intro top rest ne args cur depth t r n h; simp [collectArgsV] at h
  | succ f ih =>
    intro top rest ne args cur depth t r n h
    unfold collectArgsV at h
    split at h
    · cases h; rename_i hc; exact consume_eop_len adv _ _ _ _ _ _ hc
    · cases h
    · rename_i tok top' rest' ne' hc
      have hl := consume_ok_len adv _ _ _ _ _ _ _ hc
      split at h
      · exact Nat.le_trans (ih _ _ _ _ _ _ _ _ _ h) hl
      · split at h
        · exact Nat.le_trans (ih _ _ _ _ _ _ _ _ _ h) hl
        · split at h
          · split at h
            · cases h
            · exact Nat.le_trans (ih _ _ _ _ _ _ _ _ _ h) hl
          · exact Nat.le_trans (ih _ _ _ _ _ _ _ _ _ h) hl

theorem processArgs_inv (c : Cfg) (pw : Bool) (m : Macro) : ∀ (todo : List (List Tok)) (done : List Arg) (s s' : MS),
    s.stack.length ≤ c.lim → processArgs c pw m todo done s = .cont s' → s'.stack.length ≤ c.lim := by
  intro todo
  induction todo with
  | nil =>
    intro done s s' hl h
    unfold processArgs at h
    split at h
    · cases h
    · split at h
      · cases h; simp [overflowState]
      · cases h; simp only [List.length_cons]; omega
  | cons a rest ih =>
    intro done s s' hl h
    unfold processArgs at h
    split at h
    · split at h
      · cases h; simp [overflowState]
      · split at h
        · exact ih _ _ _ hl h
        · cases h; simp only [List.length_cons]; omega
    · exact ih _ _ _ hl h

theorem replaceTop_inv (adv : Bool) (top : Helper) (rest : List Helper) (ne : NoExp) (frames : List Frame) (x : Tok) (s' : MS)
    (h : replaceTop adv top rest ne frames x = .cont s') : s'.stack.length ≤ rest.length + 1 := by
  unfold replaceTop at h
  split at h
  · rename_i t r n hp
    cases h
    have := popAll_eop_len adv _ _ _ _ _ _ hp
    simp only [eopState]; omega
  · rename_i t r n hp
    cases h
    have := popAll_ok_len adv _ _ _ _ _ _ hp
    simp only [List.length_cons]; omega

theorem stepDefined_inv (adv : Bool) (tbl : Table) (s : MS) (top' : Helper) (rest : List Helper) (s' : MS)
    (h : stepDefined adv tbl s top' rest = .cont s') : s'.stack.length ≤ rest.length + 1 := by
  unfold stepDefined at h
  split at h
  · cases h
  · split at h
    · split at h
      · rename_i t r n hc
        cases h
        have := consume_eop_len adv _ _ _ _ _ _ hc
        simp only [eopState]; omega
      · cases h
      · rename_i x1 top1 rest1 ne1 hc1
        have h1 := consume_ok_len adv _ _ _ _ _ _ _ hc1
        split at h
        · rename_i t r n hc
          cases h
          have := consume_eop_len adv _ _ _ _ _ _ hc
          simp only [eopState]; omega
        · cases h
        · rename_i ident top2 rest2 ne2 hc2
          have h2 := consume_ok_len adv _ _ _ _ _ _ _ hc2
          split at h
          · cases h
          · split at h
            · cases h
            · split at h
              · cases h
              · have := replaceTop_inv _ _ _ _ _ _ _ h
                omega
    · split at h
      · cases h
      · exact replaceTop_inv _ _ _ _ _ _ _ h

theorem stepCall_inv (c : Cfg) (s : MS) (top : Helper) (rest : List Helper) (t : Tok) (m : Macro) (s' : MS)
    (hl : rest.length + 1 ≤ c.lim) (h : stepCall c s top rest t m = .cont s') : s'.stack.length ≤ c.lim := by
  unfold stepCall at h
  simp only at h
  split at h
  · cases h; simp only [List.length_cons]; omega
  · split at h
    · rename_i t0 r n hc
      cases h
      have := consume_eop_len _ _ _ _ _ _ _ hc
      simp only [eopState]; omega
    · cases h
    · rename_i x1 top1 rest1 ne1 hc1
      have h1 := consume_ok_len _ _ _ _ _ _ _ _ hc1
      split at h
      · rename_i t0 r n hc
        cases h
        have : r.length ≤ rest1.length := by
          split at hc
          · exact collectArgsV_eop_len _ _ _ _ _ _ _ _ _ _ _ _ hc
          · exact collectArgs_eop_len _ _ _ _ _ _ _ _ _ _ _ hc
        simp only [eopState]; omega
      · cases h
      · rename_i args top2 rest2 ne2 hc2
        have h2 : rest2.length ≤ rest1.length := by
          split at hc2
          · exact collectArgsV_ok_len _ _ _ _ _ _ _ _ _ _ _ _ _ hc2
          · exact collectArgs_ok_len _ _ _ _ _ _ _ _ _ _ _ _ hc2
        refine processArgs_inv c _ _ _ _ _ _ ?_ h
        simp only [List.length_cons]; omega

/-- **the invariant**: one loop iteration never leaves more than `c.lim` nested streams -/
theorem step_inv (c : Cfg) (tbl : Table) (s s' : MS) (h : s.stack.length ≤ c.lim) (hs : step c tbl s = .cont s') :
    s'.stack.length ≤ c.lim := by
  obtain ⟨stack, noExp, frames, ret⟩ := s
  simp only at h
  cases ret with
  | some res =>
    cases frames with
    | nil => simp [step] at hs
    | cons f fs =>
      simp only [step] at hs
      exact processArgs_inv c _ _ _ _ _ _ h hs
  | none =>
    cases stack with
    | nil => simp [step] at hs
    | cons top rest =>
      simp only [List.length_cons] at h
      simp only [step] at hs
      split at hs
      · split at hs
        · cases hs; simp [eopState]
        · split at hs
          · cases hs; simp only [eopState, List.length_cons] at *; omega
          · cases hs; simp only [List.length_cons] at *; omega
      · split at hs
        · split at hs
          · cases hs; simp only [List.length_cons]; omega
          · split at hs
            · have := stepDefined_inv _ _ _ _ _ _ hs
              omega
            · split at hs
              · cases hs; simp only [List.length_cons]; omega
              · split at hs
                · cases hs; simp only [List.length_cons]; omega
                · split at hs
                  · exact stepCall_inv c _ _ _ _ _ _ h hs
                  · split at hs
                    · cases hs; simp [overflowState]
                    · cases hs; simp only [List.length_cons]; omega
        · cases hs; simp only [List.length_cons]; omega

theorem runK_inv (c : Cfg) (tbl : Table) : ∀ (k : Nat) (s s' : MS), s.stack.length ≤ c.lim → runK c tbl k s = some s' →
    s'.stack.length ≤ c.lim := by
  intro k
  induction k with
  | zero => intro s s' h hr; simp only [runK] at hr; cases hr; exact h
  | succ k ih =>
    intro s s' h hr
    simp only [runK] at hr
    cases hi : step c tbl s with
    | cont s1 => simp only [hi] at hr; exact ih s1 s' (step_inv c tbl s s1 h hi) hr
    | done r => simp [hi] at hr
    | err e => simp [hi] at hr

end CbiVerif.MX
