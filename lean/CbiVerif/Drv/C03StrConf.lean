import Lean.Data.Json
import CbiVerif.Drv.C03
import CbiVerif.Lemmas.MacroStrSpec
/-! driver ops for the statements of `Props/C03StrConf.lean`, evaluated with the definitions the theorems are about:
    `c03stringify` (one argument text: `StrArgOk`, `PP.stringify`, `Spec.Prosser.stringize`, and whether the conclusion of
    `C03.stringify_conforms` holds), `c03replace` (one function-like definition and argument texts: the hypotheses of
    `C03.replaceFn_hash_conforms_partial` and `C03.replaceFn_hash_total_partial`, `MX.replaceFn`, `Spec.Prosser.subst` with the identity as complete macro expansion, and
    whether the conclusion holds). -/
open Lean
namespace CbiVerif.Drv.C03StrConf
open CbiVerif.PP CbiVerif.MX CbiVerif.MX.StrSpec CbiVerif.Drv.C03
open CbiVerif.Spec.Prosser (T Unspec stringize subst)

def tJ (t : T) : Json := Json.mkObj [("k", specKind t.kind), ("t", t.text), ("w", t.ws)]

def handleStringify (j : Json) : Json :=
  let arg := (j.getObjValAs? String "arg").toOption.getD ""
  let ts := tokenize arg
  let ok := decide (StrArgOk ts)
  let m := stringify ts
  let s := stringize (ts.map (toSpec []))
  -- `C03.stringify_conforms`: StrArgOk → stringize = .ok st → ∃ t, stringify = some t ∧ toSpec [] t = st
  let holds : Bool := match s with
    | .ok st => !ok || (match m with | some t => toSpec [] t == st | none => false)
    | .error _ => true
  Json.mkObj [("tokens", Json.arr (ts.map tokJ).toArray), ("arg_ok", ok),
    ("model", match m with | some t => tokJ t | none => Json.null),
    ("spec", match s with | .ok st => tJ st | .error e => Json.mkObj [("unspec", toString (repr e))]),
    ("theorem_holds", holds)]

def handleReplace (j : Json) : Json :=
  let defn := (j.getObjValAs? String "defn").toOption.getD ""
  let args := ((j.getObjValAs? (Array String) "args").toOption.getD #[]).toList
  match defineLine ("#define " ++ defn) with
  | .error e => Json.mkObj [("defexc", errName e)]
  | .ok m =>
    let ia : List Arg := (args.map tokenize).map fun ts => ⟨ts, some ts⟩
    let hyps := m.args.isSome && !m.variadic && m.hasStrcat && m.replacement.all hashBodyTok &&
      ia.all (fun a => decide (StrArgOk a.raw))
    let r := replaceFn m ia
    let o := subst (fun x => .ok x) m.args (ia.map fun a => a.raw.map (toSpec [])) (m.replacement.length + 1)
      (m.replacement.map (toSpec [])) [] false
    let ready := replaceReady (m.args.getD []) ia (m.replacement.length + 1) m.replacement
    -- `C03.replaceFn_hash_conforms_partial` / `C03.replaceFn_hash_total_partial` (with `C03.hex_identity`): both succeed → same
    -- tokens; under `replaceReady` the model succeeds whenever the specification does
    let holds : Bool := match o with
      | .ok oo => !hyps || (match r with | .ok rr => oo.map er == rr.map (toSpec []) | .error _ => !ready)
      | .error _ => true
    Json.mkObj [("macro", macroJ m), ("hyps", hyps), ("ready", ready),
      ("model", match r with | .ok rr => Json.mkObj [("ok", Json.arr (rr.map tokJ).toArray)] | .error e => Json.mkObj [("exc", errName e)]),
      ("spec", match o with | .ok oo => Json.mkObj [("ok", Json.arr (oo.map tJ).toArray)] | .error e => Json.mkObj [("unspec", toString (repr e))]),
      ("theorem_holds", holds)]

def handlers : List (String × (Json → Json)) := [("c03stringify", handleStringify), ("c03replace", handleReplace)]

end CbiVerif.Drv.C03StrConf
