import CbiVerif.Model.EnginesAgree
/-! # C04 — side condition of the engine agreement *with* `-include` files (`Props/C04EnginesForced.lean`, op `engines_f`)

`Engines.EngOK` excludes every request with an `-include` file.  `EngOKF` drops that clause: a command may name
`-include` files provided every existing file is C-family *by extension* (`FindInst.AllC`, cf. `FindInst.ClassOK`):
a forced include is entered with no includer, so `Exclude.sem` needs the extension class to parse it, while
`Inc.find` knows one front end only.  Core Lean only. -/
namespace CbiVerif.Engines
open CbiVerif.PP CbiVerif.Exclude

/-- **decidable side condition of `C04.engines_agree_forced_partial`**: no symbolic links; no existing file is Fortran or
assembler by extension; the compiled files are C-family by extension; a command has `-include` files only if every
existing file is C-family by extension.  Implied by `EngOK` (`engOKF_of_engOK`). -/
def EngOKF (fs : Inc.FS) (cfg : List (String × List Entry)) : Bool :=
  fs.links.isEmpty && FindInst.CFam fs.files &&
  cfg.all fun pe => pe.2.all fun e => extClass e.file == some .c && (e.includeFiles.isEmpty || FindInst.AllC fs.files)

/-- some command of the request names an `-include` file (coverage counter of op `engines_f`) -/
def hasForced (cfg : List (String × List Entry)) : Bool := cfg.any fun pe => pe.2.any fun e => !e.includeFiles.isEmpty

end CbiVerif.Engines
