import Lean.Data.Json
import CbiVerif.Model.Argparse
import CbiVerif.Model.Shlex
import CbiVerif.Spec.Extract
import CbiVerif.Spec.ShellQuote
/-! driver ops for C11: `c11` (model, spec and finding classes of one argument vector),
`c11split` (model of `CompileCommand(command=s).arguments`), `c11join` (the spec's shell quoting
and the model's split of it). The functions called here are the ones the theorems of
`Props/C11.lean` are about. -/
open Lean
namespace CbiVerif.Drv.Argv
open CbiVerif

def strs (j : Json) (k : String) : List (List Char) :=
  ((j.getObjValAs? (Array String) k).toOption.getD #[]).toList.map String.toList

def jstr (a : List Char) : Json := Json.str (String.ofList a)
def jstrs (l : List (List Char)) : Json := Json.arr (l.map jstr).toArray

def jval : Argparse.Val → Json
  | .str s => jstr s
  | .emptyList => Json.arr #[]

def errName : Argparse.PErr → String
  | .argumentError => "ArgumentError"
  | .systemExit => "SystemExit"
  | .typeError => "TypeError"
  | .unsupported => "unsupported"

def tagName : Extract.Tag → String
  | .D21 => "D21" | .D22dash => "D22dash" | .D22abbrev => "D22abbrev" | .D23 => "D23" | .D36 => "D36" | .dangling => "dangling"

def splitJson (r : Except Shlex.ShErr (List (List Char))) : Json :=
  match r with
  | .ok l => Json.mkObj [("ok", jstrs l)]
  | .error .noClosingQuotation => Json.mkObj [("exc", "No closing quotation")]
  | .error .noEscapedCharacter => Json.mkObj [("exc", "No escaped character")]
  | .error .unsupported => Json.mkObj [("exc", "unsupported")]

def handleC11 (j : Json) : Json :=
  let argv := strs j "argv"
  let argv0 := ((j.getObjValAs? String "argv0").toOption.getD "cc").toList
  let cmd := ShellQuote.shellJoin (argv0 :: argv)
  let model : Json := match Argparse.argparseModel argv with
    | .ok r => Json.mkObj [("ok", Json.mkObj [
        ("defines", Json.arr (r.defines.map jval).toArray),
        ("include_paths", Json.arr (r.includePaths.map jval).toArray),
        ("include_files", Json.arr (r.includeFiles.map jval).toArray)])]
    | .error e => Json.mkObj [("exc", errName e)]
  let s := Extract.extract argv
  let wantViews := (j.getObjValAs? Bool "views").toOption.getD false
  Json.mkObj ([
    ("model", model),
    ("spec", Json.mkObj [("defines", jstrs s.defines), ("include_paths", jstrs s.includePaths), ("include_files", jstrs s.includeFiles)]),
    ("classes", Json.arr ((Extract.classes argv).map fun t => Json.str (tagName t)).toArray),
    ("tame", decide (Extract.Tame argv)),
    ("complete", decide (Extract.Complete argv)),
    ("command", jstr cmd),
    ("split", splitJson (Shlex.commandArguments cmd))] ++
    (if wantViews then [("views", Json.arr (argv.map fun a => Json.str (toString (repr (Argparse.viewOf Argparse.table a)))).toArray)] else []))

def handleSplit (j : Json) : Json :=
  let s := ((j.getObjValAs? String "s").toOption.getD "").toList
  Json.mkObj [("model", splitJson (Shlex.commandArguments s))]

def handleJoin (j : Json) : Json :=
  let argv := strs j "argv"
  let cmd := ShellQuote.shellJoin argv
  Json.mkObj [("command", jstr cmd), ("model", splitJson (Shlex.commandArguments cmd))]

def handlers : List (String × (Json → Json)) := [("c11", handleC11), ("c11split", handleSplit), ("c11join", handleJoin)]

end CbiVerif.Drv.Argv
