import CbiVerif.Lemmas.MacroFunRef
/-! # C03, function-like fragment: only the macro names among the disabled entries matter

The `none` placeholders the machine pushes for the outermost stream and for argument streams disable nothing:
`Ref`, `fitsb`, `cost` depend on the disabled-name list only through `D.contains (some x)`. -/
namespace CbiVerif.MX
open CbiVerif.PP

/-- two disabled-name lists disable the same names -/
def Eqv (D D' : NoExp) : Prop := ∀ x : String, D.contains (some x) = D'.contains (some x)

theorem eqv_cons (y : Option String) (D D' : NoExp) (h : Eqv D D') : Eqv (y :: D) (y :: D') := by
  intro x; simp only [List.contains_cons, h x]

theorem eqv_none (D : NoExp) : Eqv (none :: D) D := by
  intro x; simp

theorem scan_congr (tbl : Table) (ex : NoExp → List Tok → List Tok) (fit : NoExp → List Tok → Bool) (cost : NoExp → List Tok → Nat)
    (hex : ∀ D D', Eqv D D' → ex D = ex D' ∧ fit D = fit D' ∧ cost D = cost D') :
    ∀ (n : Nat) (D D' : NoExp) (ts : List Tok), Eqv D D' →
      scanRef tbl ex n D ts = scanRef tbl ex n D' ts ∧ scanFit tbl ex fit n D ts = scanFit tbl ex fit n D' ts ∧
      scanCost tbl ex cost n D ts = scanCost tbl ex cost n D' ts := by
  intro n
  induction n with
  | zero => intro D D' ts _; simp [scanRef, scanFit, scanCost]
  | succ n ih =>
    intro D D' ts h
    cases ts with
    | nil => simp [scanRef, scanFit, scanCost]
    | cons a as =>
      have i1 := ih D D' as h
      simp only [scanRef, scanFit, scanCost]
      rw [h a.text]
      cases hm : tbl.get a.text with
      | none => simp only [i1.1, i1.2.1, i1.2.2, and_self]
      | some m =>
        have e1 := hex (some m.name :: D) (some m.name :: D') (eqv_cons _ D D' h)
        have e2 := hex (none :: D) (none :: D') (eqv_cons _ D D' h)
        cases hargs : m.args with
        | none => simp only [hargs, i1.1, i1.2.1, i1.2.2, e1.1, e1.2.1, e1.2.2, and_self]
        | some ps =>
          cases hcall : callOf as with
          | none => simp only [hargs, i1.1, i1.2.1, i1.2.2, and_self]
          | some ar =>
            obtain ⟨args, rest⟩ := ar
            have i2 := ih D D' rest h
            simp only [hargs, i1.1, i1.2.1, i1.2.2, i2.1, i2.2.1, i2.2.2, e1.1, e1.2.1, e1.2.2, e2.1, e2.2.1, e2.2.2, and_self]

theorem ref_congr (tbl : Table) : ∀ (d : Nat) (D D' : NoExp), Eqv D D' →
    Ref tbl d D = Ref tbl d D' ∧ fitsb tbl d D = fitsb tbl d D' ∧ cost tbl d D = cost tbl d D' := by
  intro d
  induction d with
  | zero => intro D D' _; refine ⟨?_, ?_, ?_⟩ <;> funext ts <;> simp [Ref, fitsb, cost]
  | succ d ih =>
    intro D D' h
    refine ⟨?_, ?_, ?_⟩ <;> funext ts <;> simp only [Ref, fitsb, cost]
    · exact (scan_congr tbl _ _ _ ih ts.length D D' ts h).1
    · exact (scan_congr tbl _ _ _ ih ts.length D D' ts h).2.1
    · exact (scan_congr tbl _ _ _ ih ts.length D D' ts h).2.2

/-- at top level (`no_expand = [None]`) nothing is disabled -/
theorem Ref_top (tbl : Table) (d : Nat) (ts : List Tok) : Ref tbl d [none] ts = Ref tbl d [] ts := by
  rw [(ref_congr tbl d [none] [] (eqv_none [])).1]
theorem fitsb_top (tbl : Table) (d : Nat) (ts : List Tok) : fitsb tbl d [none] ts = fitsb tbl d [] ts := by
  rw [(ref_congr tbl d [none] [] (eqv_none [])).2.1]
theorem cost_top (tbl : Table) (d : Nat) (ts : List Tok) : cost tbl d [none] ts = cost tbl d [] ts := by
  rw [(ref_congr tbl d [none] [] (eqv_none [])).2.2]

end CbiVerif.MX
