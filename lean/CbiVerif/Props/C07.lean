import CbiVerif.Model.Metrics
import CbiVerif.Lemmas.Metrics
import Mathlib.Tactic.Ring
import Mathlib.Tactic.Linarith
import Mathlib.Tactic.FieldSimp
import Mathlib.Tactic.Positivity
import Mathlib.Algebra.Order.Field.Basic
import Mathlib.Algebra.BigOperators.Group.List.Basic
import Mathlib.Data.List.Perm.Basic
import Mathlib.Data.List.Dedup

/-!
# C07 — coverage, average coverage, distance and divergence equal their definitions

Property theorems only (helper lemmas live in `CbiVerif/Lemmas/Metrics.lean`).
All statements are for **every** setmap (any number of entries, any counts, any
platform names) and every `platforms` argument.
-/
namespace CbiVerif.C07
open CbiVerif.Metrics

/-! ## definitions -/

/-- coverage = 100 · (lines used by ≥ 1 selected platform) / (all lines); NaN iff no lines -/
theorem coverage_def (sm : Setmap) (ps : List String) :
    coverage sm ps =
      if total sm = 0 then none
      else some ((usedBy sm (selected sm ps) : ℚ) / (total sm : ℚ) * 100) := by
  rfl

/-- average coverage = mean of the single-platform coverages -/
theorem avg_def (sm : Setmap) (ps : List String) (a : ℚ) (h : averageCoverage sm ps = some a) :
    (∀ p ∈ selected sm ps, coverage sm [p] = some (coverage0 sm [p])) ∧
    a * ((selected sm ps).length : ℚ) = ((selected sm ps).map fun p => coverage0 sm [p]).sum := by
  rw [averageCoverage_eq] at h
  unfold avgOn at h
  split at h
  · exact absurd h (by simp)
  · rename_i hc
    have hlen : (selected sm ps).length ≠ 0 := fun h0 => hc (Or.inl h0)
    have htot : total sm ≠ 0 := fun h0 => hc (Or.inr h0)
    refine ⟨fun p _ => ?_, ?_⟩
    · rw [coverage_eq, if_neg htot, selected_of_ne_nil sm (List.cons_ne_nil p [])]
    · have hl : ((selected sm ps).length : ℚ) ≠ 0 := by exact_mod_cast hlen
      rw [← Option.some.inj h, div_mul_cancel₀ _ hl]

/-- distance = Jaccard distance 1 − |A∩B| / |A∪B| of the two platforms' line sets -/
theorem distance_jaccard (sm : Setmap) (p q : String) (d : ℚ) (h : distance sm p q = some d) :
    d = 1 - (interCount sm p q : ℚ) / (unionCount sm p q : ℚ) := by
  unfold distance at h
  split at h
  · exact absurd h (by simp)
  · rename_i hu
    have hu' : (unionCount sm p q : ℚ) ≠ 0 := by exact_mod_cast hu
    have hadd : (unionCount sm p q : ℚ) = (xorCount sm p q : ℚ) + (interCount sm p q : ℚ) := by
      exact_mod_cast unionCount_eq_add sm p q
    rw [← Option.some.inj h, distance0, eq_sub_iff_add_eq, ← add_div, ← hadd, div_self hu']

/-- divergence = mean distance over all unordered platform pairs -/
theorem divergence_def (sm : Setmap) (ps : List String) (d : ℚ) (h : divergenceOn sm ps = some d) :
    d * (npairs ps : ℚ) = pairSum (distance0 sm) ps ∧ npairs ps ≠ 0 := by
  unfold divergenceOn at h
  split at h
  · exact absurd h (by simp)
  · rename_i hc
    have hn : npairs ps ≠ 0 := fun h0 => hc (Or.inl h0)
    have hn' : (npairs ps : ℚ) ≠ 0 := by exact_mod_cast hn
    exact ⟨by rw [← Option.some.inj h, div_mul_cancel₀ _ hn'], hn⟩

/-! ## symmetry, diagonal, ranges -/

theorem distance_symm (sm : Setmap) (p q : String) : distance sm p q = distance sm q p := by
  unfold distance
  rw [unionCount_symm sm p q, distance0_symm sm p q]

theorem distance_diag (sm : Setmap) (p : String) (d : ℚ) (h : distance sm p p = some d) : d = 0 := by
  unfold distance at h
  split at h
  · exact absurd h (by simp)
  · rw [← Option.some.inj h, distance0, xorCount_self]; simp

theorem coverage_range (sm : Setmap) (ps : List String) (c : ℚ) (h : coverage sm ps = some c) :
    0 ≤ c ∧ c ≤ 100 := by
  rw [coverage_eq] at h
  split at h
  · exact absurd h (by simp)
  · rw [← Option.some.inj h]
    exact ⟨coverage0_nonneg _ _, coverage0_le _ _⟩

theorem avg_range (sm : Setmap) (ps : List String) (a : ℚ) (h : averageCoverage sm ps = some a) :
    0 ≤ a ∧ a ≤ 100 := by
  rw [averageCoverage_eq] at h
  unfold avgOn at h
  split at h
  · exact absurd h (by simp)
  · rename_i hc
    have hlen : (selected sm ps).length ≠ 0 := fun h0 => hc (Or.inl h0)
    have hpos : (0 : ℚ) < ((selected sm ps).length : ℚ) := by
      exact_mod_cast Nat.pos_of_ne_zero hlen
    have hb := sum_map_bounds (l := selected sm ps) (g := fun p => coverage0 sm [p])
      (lo := 0) (hi := 100) (fun p => ⟨coverage0_nonneg _ _, coverage0_le _ _⟩)
    rw [← Option.some.inj h]
    refine ⟨div_nonneg (by linarith [hb.1]) hpos.le, ?_⟩
    rw [div_le_iff₀ hpos]
    exact hb.2

theorem distance_range (sm : Setmap) (p q : String) (d : ℚ) (h : distance sm p q = some d) :
    0 ≤ d ∧ d ≤ 1 := by
  unfold distance at h
  split at h
  · exact absurd h (by simp)
  · rw [← Option.some.inj h]
    exact ⟨distance0_nonneg _ _ _, distance0_le_one _ _ _⟩

theorem divergence_range (sm : Setmap) (ps : List String) (d : ℚ) (h : divergenceOn sm ps = some d) :
    0 ≤ d ∧ d ≤ 1 := by
  unfold divergenceOn at h
  split at h
  · exact absurd h (by simp)
  · rename_i hc
    have hn : npairs ps ≠ 0 := fun h0 => hc (Or.inl h0)
    have hpos : (0 : ℚ) < (npairs ps : ℚ) := by exact_mod_cast Nat.pos_of_ne_zero hn
    have hb := pairSum_bounds (d := distance0 sm)
      (fun a b => ⟨distance0_nonneg _ _ _, distance0_le_one _ _ _⟩) ps
    rw [← Option.some.inj h]
    refine ⟨div_nonneg hb.1 hpos.le, ?_⟩
    rw [div_le_iff₀ hpos, one_mul]
    exact hb.2

/-! ## NaN exactly when undefined -/

theorem coverage_nan_iff (sm : Setmap) (ps : List String) : coverage sm ps = none ↔ total sm = 0 := by
  rw [coverage_eq]
  split <;> simp [*]

theorem avg_nan_iff (sm : Setmap) (ps : List String) :
    averageCoverage sm ps = none ↔ (selected sm ps = [] ∨ total sm = 0) := by
  rw [averageCoverage_eq]
  unfold avgOn
  rw [← List.length_eq_zero_iff]
  split
  · rename_i hc; exact ⟨fun _ => hc, fun _ => rfl⟩
  · rename_i hc; exact ⟨fun h => absurd h (by simp), fun h => absurd h hc⟩

theorem distance_nan_iff (sm : Setmap) (p q : String) :
    distance sm p q = none ↔ unionCount sm p q = 0 := by
  unfold distance
  split <;> simp [*]

/-- NaN iff fewer than two platforms or some pair of platforms has no line at all -/
theorem divergence_nan_iff (sm : Setmap) (ps : List String) :
    divergenceOn sm ps = none ↔ (ps.length < 2 ∨ pairsDefined sm ps = false) := by
  unfold divergenceOn
  rw [← npairs_eq_zero_iff]
  split <;> simp [*]

/-- `pairsDefined` says what its name says -/
theorem pairsDefined_iff (sm : Setmap) (ps : List String) :
    pairsDefined sm ps = true ↔ List.Pairwise (fun a b => unionCount sm a b ≠ 0) ps := by
  exact pairsDefined_iff_pairwise sm ps

/-! ## independence of enumeration order -/

theorem coverage_perm (sm sm' : Setmap) (ps : List String) (h : sm.Perm sm') :
    coverage sm ps = coverage sm' ps := by
  rw [coverage_eq, coverage_eq, total_perm h, coverage0_perm h,
    coverage0_set sm' (fun p => (selected_perm h (List.Perm.refl ps)).mem_iff)]

/-- only the *set* of selected platforms matters -/
theorem coverage_platform_set (sm : Setmap) (ps ps' : List String)
    (hne : ps ≠ []) (hne' : ps' ≠ []) (h : ∀ p, p ∈ ps ↔ p ∈ ps') :
    coverage sm ps = coverage sm ps' := by
  rw [coverage_eq, coverage_eq, selected_of_ne_nil sm hne, selected_of_ne_nil sm hne',
    coverage0_set sm h]

theorem avg_perm (sm sm' : Setmap) (ps ps' : List String) (h : sm.Perm sm') (hp : ps.Perm ps') :
    averageCoverage sm ps = averageCoverage sm' ps' := by
  rw [averageCoverage_eq, averageCoverage_eq]
  exact avgOn_perm h (selected_perm h hp)

theorem distance_perm (sm sm' : Setmap) (p q : String) (h : sm.Perm sm') :
    distance sm p q = distance sm' p q := by
  unfold distance
  rw [unionCount_perm h, distance0_perm h]

theorem divergenceOn_perm (sm sm' : Setmap) (ps ps' : List String) (h : sm.Perm sm') (hp : ps.Perm ps') :
    divergenceOn sm ps = divergenceOn sm' ps' := by
  exact divergenceOn_perm' h hp

theorem divergence_perm (sm sm' : Setmap) (h : sm.Perm sm') : divergence sm = divergence sm' := by
  exact divergenceOn_perm' h (platformsOf_perm h)

/-! ## multiplying all counts by a common factor -/

theorem coverage_scale (k : Nat) (hk : 0 < k) (sm : Setmap) (ps : List String) :
    coverage (scale k sm) ps = coverage sm ps := by
  rw [coverage_eq, coverage_eq, selected_scale, coverage0_scale hk, total_scale]
  have : k * total sm = 0 ↔ total sm = 0 := by
    rw [Nat.mul_eq_zero]
    exact ⟨fun h => h.resolve_left (Nat.pos_iff_ne_zero.mp hk), Or.inr⟩
  simp only [this]

theorem avg_scale (k : Nat) (hk : 0 < k) (sm : Setmap) (ps : List String) :
    averageCoverage (scale k sm) ps = averageCoverage sm ps := by
  rw [averageCoverage_eq, averageCoverage_eq, selected_scale, avgOn_scale hk]

theorem distance_scale (k : Nat) (hk : 0 < k) (sm : Setmap) (p q : String) :
    distance (scale k sm) p q = distance sm p q := by
  unfold distance
  rw [distance0_scale hk]
  simp only [unionCount_scale_eq_zero hk]

theorem divergence_scale (k : Nat) (hk : 0 < k) (sm : Setmap) : divergence (scale k sm) = divergence sm := by
  unfold divergence
  rw [platformsOf_scale, divergenceOn_scale hk]

/-! ## renaming platforms (injective) -/

theorem coverage_rename (f : String → String) (hf : Function.Injective f) (sm : Setmap) (ps : List String) :
    coverage (rename f sm) (ps.map f) = coverage sm ps := by
  rw [coverage_eq, coverage_eq, total_rename,
    coverage0_set (rename f sm) (fun p => (selected_rename hf sm ps).mem_iff),
    coverage0_rename hf]

theorem avg_rename (f : String → String) (hf : Function.Injective f) (sm : Setmap) (ps : List String) :
    averageCoverage (rename f sm) (ps.map f) = averageCoverage sm ps := by
  rw [averageCoverage_eq, averageCoverage_eq,
    avgOn_perm (List.Perm.refl (rename f sm)) (selected_rename hf sm ps), avgOn_rename hf]

theorem distance_rename (f : String → String) (hf : Function.Injective f) (sm : Setmap) (p q : String) :
    distance (rename f sm) (f p) (f q) = distance sm p q := by
  unfold distance
  rw [unionCount_rename hf, distance0_rename hf]

theorem divergence_rename (f : String → String) (hf : Function.Injective f) (sm : Setmap) :
    divergence (rename f sm) = divergence sm := by
  unfold divergence
  rw [divergenceOn_perm' (List.Perm.refl (rename f sm)) (platformsOf_rename hf sm),
    divergenceOn_rename hf]

/-! ## non-vacuity: a concrete table meets the hypotheses with non-trivial values -/

def ex : Setmap := [(["A"], 1), (["B"], 2), (["A", "B"], 3), ([], 4)]
example : coverage ex [] = some 60 := by decide +kernel
example : averageCoverage ex [] = some 45 := by decide +kernel
example : distance ex "A" "B" = some (1/2) := by decide +kernel
example : divergence ex = some (1/2) := by decide +kernel
example : coverage [([], 0)] [] = none := by decide +kernel

end CbiVerif.C07
