/-!
# C12 — executable model of CBI's compiler emulation (`codebasin/config.py`)

Mirrors, quirks included:

* `_Compiler.from_toml`, `_load_compilers` (built-in files, then `./.cbi/config` merged on top),
* `ArgumentParser.__init__` (recognition by name, alias-chain walk with loop / unknown-target report),
* `ArgumentParser.parse_args` (the subset of CPython 3.12 `argparse.parse_known_args` that this
  parser shape exercises, `_StoreSplitAction`, `_ExtendMatchAction`, pass / mode composition),
* `load_database`'s one-entry-per-pass expansion.

Core Lean only.  Everything is written by structural recursion (no `while`, no well-founded
recursion, strings handled as `List Char`) so that the kernel can evaluate the model on the
generated built-in table (`decide`), and so that the native driver executes *these* definitions.

Modelled, not verified: `string.Template` (re-implemented below for `$$`, `$name`, `${name}`), `str.split`,
CPython's `argparse`; `re.findall` is a parameter (`Matches`): computed by `Model/Regex.lean` for the supported
pattern fragment, a harness-supplied table otherwise.
Set iteration orders of the code (`set(args.passes)`, `set(args.modes)`) are replaced by
first-occurrence order; the harness compares pass lists up to order and treats a different order of
simultaneously active modes as the recorded finding D34.
-/
namespace CbiVerif.Compilers

/-! ## association lists with Python `dict` semantics (insertion ordered) -/

def lookup {α} (l : List (String × α)) (k : String) : Option α :=
  match l with
  | [] => none
  | (k', v) :: r => if k' == k then some v else lookup r k

/-- `d[k] = v`: overwrite in place if present, else append -/
def dictSet {α} (l : List (String × α)) (k : String) (v : α) : List (String × α) :=
  match l with
  | [] => [(k, v)]
  | (k', v') :: r => if k' == k then (k, v) :: r else (k', v') :: dictSet r k v

def hasKey {α} (l : List (String × α)) (k : String) : Bool := (lookup l k).isSome

/-- order-preserving de-duplication (first occurrence wins) -/
def dedupAux (seen : List String) : List String → List String
  | [] => []
  | x :: r => if seen.contains x then dedupAux seen r else x :: dedupAux (seen ++ [x]) r
def dedup (l : List String) : List String := dedupAux [] l

/-! ## Python string helpers on `List Char` -/

def dropPrefix? : List Char → List Char → Option (List Char)
  | [], s => some s
  | _ :: _, [] => none
  | p :: ps, c :: cs => if p == c then dropPrefix? ps cs else none

/-- `s.split(sep)` for a non-empty `sep` (fuel `s.length + 1`) -/
def splitAux (sep : List Char) : Nat → List Char → List Char → List (List Char)
  | 0, _, cur => [cur.reverse]
  | fuel + 1, s, cur =>
    match s with
    | [] => [cur.reverse]
    | c :: cs =>
      match dropPrefix? sep s with
      | some rest => cur.reverse :: splitAux sep fuel rest []
      | none => splitAux sep fuel cs (c :: cur)

def pyIsSpace (c : Char) : Bool :=
  c == ' ' || c == '\t' || c == '\n' || c == '\r' || c == '\x0b' || c == '\x0c' ||
  c == '\x1c' || c == '\x1d' || c == '\x1e' || c == '\x1f'

/-- `s.split()` : runs of white space separate, no empty fields -/
def splitWs : List Char → List Char → List (List Char)
  | [], cur => if cur.isEmpty then [] else [cur.reverse]
  | c :: cs, cur =>
    if pyIsSpace c then (if cur.isEmpty then splitWs cs [] else cur.reverse :: splitWs cs [])
    else splitWs cs (c :: cur)

inductive PErr
  | argumentError        -- argparse.ArgumentError (propagates out of parse_args)
  | systemExit           -- ambiguous abbreviation: argparse calls error() → SystemExit(2)
  | keyError             -- string.Template placeholder other than `value`
  | valueError           -- invalid `$` in a template / empty separator
  | attributeError       -- extend_match without override on a destination that is not a list
  | conflict             -- two rules share an option string: ArgumentError from add_argument
  | unsupported (what : String)   -- outside the modelled subset (reported as a correspondence gap)
deriving Repr, DecidableEq, Inhabited

/-- `str.split(sep)`; `sep = None` splits on white space, `sep = ""` raises ValueError -/
def pySplit (s : String) (sep : Option String) : Except PErr (List String) :=
  match sep with
  | none => .ok ((splitWs s.toList []).map String.ofList)
  | some sp =>
    if sp.toList.isEmpty then .error .valueError
    else .ok ((splitAux sp.toList (s.toList.length + 1) s.toList []).map String.ofList)

def isIdStart (c : Char) : Bool := c.isAlpha || c == '_'
def isIdChar (c : Char) : Bool := c.isAlphanum || c == '_'

/-- `string.Template(tpl).substitute(value=v)` -/
def substAux (v : List Char) : Nat → List Char → Except PErr (List Char)
  | 0, _ => .ok []
  | _ + 1, [] => .ok []
  | fuel + 1, c :: cs =>
    if c != '$' then (substAux v fuel cs).map (c :: ·)
    else match cs with
      | '$' :: r => (substAux v fuel r).map ('$' :: ·)
      | '{' :: r =>
        let name := r.takeWhile isIdChar
        let after := r.dropWhile isIdChar
        match name, after with
        | n0 :: _, '}' :: r2 =>
          if !isIdStart n0 then .error .valueError
          else if name == "value".toList then (substAux v fuel r2).map (v ++ ·)
          else .error .keyError
        | _, _ => .error .valueError
      | n0 :: _ =>
        if isIdStart n0 then
          let name := cs.takeWhile isIdChar
          if name == "value".toList then (substAux v fuel (cs.dropWhile isIdChar)).map (v ++ ·)
          else .error .keyError
        else .error .valueError
      | [] => .error .valueError

def substitute (tpl : Option String) (v : String) : Except PErr String :=
  match tpl with
  | none => .ok v
  | some t => if t.isEmpty then .ok v     -- `if self.format:` — an empty format is falsy
              else (substAux v.toList (t.toList.length + 1) t.toList).map String.ofList

def mapM' {α β} (f : α → Except PErr β) : List α → Except PErr (List β)
  | [] => .ok []
  | x :: r => match f x with
    | .error e => .error e
    | .ok y => match mapM' f r with
      | .error e => .error e
      | .ok ys => .ok (y :: ys)

/-! ## definitions as written in TOML, and loaded compilers -/

inductive DefaultV | str (s : String) | list (l : List String)
deriving Repr, DecidableEq, Inhabited

/-- a string default names one pass -/
def DefaultV.toList : DefaultV → List String
  | .str s => [s]
  | .list l => l

/-- one `[[compiler.X.parser]]` table, keys as in `schema/cbiconfig.schema` -/
structure Rule where
  flags : List String
  action : String
  dest : Option String := none
  const : Option String := none
  sep : Option String := none
  format : Option String := none
  pattern : Option String := none
  default : Option DefaultV := none
  override : Option Bool := none
deriving Repr, DecidableEq, Inhabited

structure ModeDef where
  name : String
  defines : List String := []
  includePaths : List String := []
  includeFiles : List String := []
deriving Repr, DecidableEq, Inhabited

structure PassDef extends ModeDef where
  modes : List String := []
deriving Repr, DecidableEq, Inhabited

/-- one `[compiler.NAME]` table; `none` = key absent (presence matters for the schema and the merge) -/
structure Definition where
  aliasOf : Option String := none
  options : Option (List String) := none
  parser : Option (List Rule) := none
  modes : Option (List ModeDef) := none
  passes : Option (List PassDef) := none
deriving Repr, DecidableEq, Inhabited

/-- `oneOf` of the schema: a table is either an alias (only `alias_of`) or a definition (no `alias_of`);
    the empty table matches both alternatives and is therefore rejected too. -/
def Definition.valid (d : Definition) : Bool :=
  d.aliasOf.isSome != (d.options.isSome || d.parser.isSome || d.modes.isSome || d.passes.isSome)

/-- `_Compiler` -/
structure Compiler where
  aliasOf : Option String := none
  options : List String := []
  parser : List Rule := []
  modes : List (String × ModeDef) := []
  passes : List (String × PassDef) := []
deriving Repr, DecidableEq, Inhabited

/-- `_Compiler.from_toml` -/
def fromToml (d : Definition) : Compiler :=
  { aliasOf := d.aliasOf
    options := d.options.getD []
    parser := d.parser.getD []
    modes := (d.modes.getD []).foldl (fun acc m => dictSet acc m.name m) []
    passes := (d.passes.getD []).foldl (fun acc p => dictSet acc p.name p) [] }

abbrev CompilerMap := List (String × Compiler)

/-- `alias_of is not None` -/
def aliasTarget (c : Compiler) : Option String :=
  c.aliasOf

inductive Log
  | notRecognized (name : String)
  | aliasLoop (name : String)
  | aliasUnknown (name target : String)
  | unrecognizedArgs (args : List String)
  | badPass (p : String)
  | badMode (m : String)
  | invalidConfig                          -- schema / TOML error: log.error, user file ignored
  | redefinedAsAlias (name target : String)
  | overridesAlias (name : String)
  | modeRedefined (m : String)
  | passRedefined (p : String)
deriving Repr, DecidableEq, Inhabited

/-- built-in files in the order of `_load_compilers`; a file failing validation stops the load -/
def loadBuiltin : List (List (String × Definition)) → CompilerMap → CompilerMap × Bool
  | [], acc => (acc, true)
  | f :: fs, acc =>
    if f.all (·.2.valid) then loadBuiltin fs (f.foldl (fun a nd => dictSet a nd.1 (fromToml nd.2)) acc)
    else (acc, false)

def mergeModes (ms : List ModeDef) (st : List (String × ModeDef) × List Log) : List (String × ModeDef) × List Log :=
  ms.foldl (fun s m => (dictSet s.1 m.name m, if hasKey s.1 m.name then s.2 ++ [.modeRedefined m.name] else s.2)) st

def mergePasses (ps : List PassDef) (st : List (String × PassDef) × List Log) : List (String × PassDef) × List Log :=
  ps.foldl (fun s p => (dictSet s.1 p.name p, if hasKey s.1 p.name then s.2 ++ [.passRedefined p.name] else s.2)) st

/-- redefinition of an existing, non-alias-keyed compiler: options / rules appended, modes / passes overridden by name -/
def extendCompiler (c : Compiler) (d : Definition) : Compiler × List Log :=
  let (ms, l1) := mergeModes (d.modes.getD []) (c.modes, [])
  let (ps, l2) := mergePasses (d.passes.getD []) (c.passes, [])
  ({ aliasOf := none, options := c.options ++ d.options.getD [], parser := c.parser ++ d.parser.getD [],
     modes := ms, passes := ps }, l1 ++ l2)

/-- one iteration of the `.cbi/config` loop of `_load_compilers` -/
def mergeOne (st : CompilerMap × List Log) (nd : String × Definition) : CompilerMap × List Log :=
  let (cs, logs) := st
  let (name, d) := nd
  match lookup cs name with
  | none => (dictSet cs name (fromToml d), logs)
  | some c =>
    match d.aliasOf with
    | some a => (dictSet cs name (fromToml d), logs ++ [.redefinedAsAlias name a])
    | none =>
      let l0 : List Log := if (aliasTarget c).isSome then [.overridesAlias name] else []
      let (c', l1) := extendCompiler { c with aliasOf := none } d
      (dictSet cs name c', logs ++ l0 ++ l1)

/-- what `./.cbi/config` contains -/
inductive UserFile
  | absent
  | broken                                        -- not TOML
  | noCompilerKey                                 -- valid, but no `[compiler…]` table
  | defs (l : List (String × Definition))
deriving Repr, Inhabited

/-- `_load_compilers` -/
def loadCompilers (builtin : List (List (String × Definition))) (u : UserFile) : CompilerMap × List Log :=
  match loadBuiltin builtin [] with
  | (cs, false) => (cs, [.invalidConfig])
  | (cs, true) =>
    match u with
    | .absent => (cs, [])
    | .noCompilerKey => (cs, [])
    | .broken => (cs, [.invalidConfig])
    | .defs l => if l.all (·.2.valid) then l.foldl mergeOne (cs, []) else (cs, [.invalidConfig])

/-! ## `ArgumentParser.__init__` -/

inductive Resolved
  | found (c : Compiler)
  | notRecognized
  | loop
  | unknownTarget (a : String)
deriving Repr, DecidableEq, Inhabited

/-- the `while` loop of the alias walk; `chain` is `alias_chain`, `cur = _compilers[chain[-1]]` -/
def walk (cs : CompilerMap) : Nat → List String → Compiler → Resolved
  | 0, _, _ => .loop
  | fuel + 1, chain, cur =>
    match aliasTarget cur with
    | none => .found cur
    | some a =>
      if chain.contains a then .loop
      else match lookup cs a with
        | none => .unknownTarget a
        | some c => walk cs fuel (chain ++ [a]) c

def resolve (cs : CompilerMap) (name : String) : Resolved :=
  match lookup cs name with
  | none => .notRecognized
  | some c => walk cs (cs.length + 1) [name] c

/-- the compiler object `parse_args` then works with (an empty `_Compiler()` on any failure) and the log record -/
def Resolved.compiler : Resolved → Compiler
  | .found c => c
  | _ => {}

def Resolved.logs (name : String) : Resolved → List Log
  | .found _ => []
  | .notRecognized => [.notRecognized name]
  | .loop => [.aliasLoop name]
  | .unknownTarget a => [.aliasUnknown name a]

/-! ## the argparse subset -/

inductive Nargs | one | opt | zero deriving DecidableEq, Repr, Inhabited

inductive Act
  | ignore
  | append (dest : String)
  | undefine (dest : String)     -- `_UndefineAction` (`-U`): drop the definitions of the named macro made so far
  | appendConst (dest const : String)
  | storeSplit (dest : String) (sep format : Option String)
  | extendMatch (dest flag0 : String) (format : Option String) (override : Bool)
deriving Repr, DecidableEq, Inhabited

structure Opt where
  flags : List String
  nargs : Nargs
  act : Act
deriving Repr, DecidableEq, Inhabited

/-- the fixed options of `parse_args` (with the D14 / D20 repairs of the pinned tree) -/
def baseTable : List Opt := [
  ⟨["-D"], .one, .append "defines"⟩,
  ⟨["-U"], .one, .undefine "defines"⟩,
  ⟨["-I"], .one, .append "include_paths"⟩,
  ⟨["-isystem"], .one, .append "system_include_paths"⟩,
  ⟨["-include"], .one, .append "include_files"⟩,
  ⟨["-O"], .opt, .ignore⟩, ⟨["-o"], .one, .ignore⟩, ⟨["-g"], .opt, .ignore⟩, ⟨["-c"], .opt, .ignore⟩]

/-- argparse's derived `dest`: first long option string (else first), leading dashes stripped, `-` ↦ `_` -/
def derivedDest (flags : List String) : String :=
  let isLong (f : String) : Bool := match f.toList with | '-' :: '-' :: _ => true | _ => false
  let pick := match flags.find? isLong with | some f => f | none => flags.headD ""
  String.ofList ((pick.toList.dropWhile (· == '-')).map fun c => if c == '-' then '_' else c)

def Rule.destName (r : Rule) : String := r.dest.getD (derivedDest r.flags)

/-- `add_argument(*flags, **kwargs)` for one rule of the compiler definition -/
def ruleOpt (r : Rule) : Except PErr Opt :=
  let d := r.destName
  match r.action with
  | "append_const" => .ok ⟨r.flags, .zero, .appendConst d (r.const.getD "")⟩
  | "append" => .ok ⟨r.flags, .one, .append d⟩
  | "store_split" => .ok ⟨r.flags, .one, .storeSplit d r.sep r.format⟩
  | "extend_match" => .ok ⟨r.flags, .one, .extendMatch d (r.flags.headD "") r.format (r.override.getD false)⟩
  | a => .error (.unsupported ("action " ++ a))

def optionStrings (t : List Opt) : List (String × Opt) := t.flatMap fun o => o.flags.map fun f => (f, o)

/-- add the rules one by one; a repeated option string is argparse's "conflicting option string" error -/
def addRules : List Rule → List Opt → Except PErr (List Opt)
  | [], t => .ok t
  | r :: rs, t =>
    match ruleOpt r with
    | .error e => .error e
    | .ok o =>
      if r.flags.any (fun f => ((optionStrings t).map (·.1)).contains f) then .error .conflict
      else addRules rs (t ++ [o])

/-- `namespace._passes` before parsing: defaults of custom actions whose dest is `passes` -/
def passDefaults (rules : List Rule) : List (String × List String) :=
  rules.foldl (fun acc r =>
    if (r.action == "store_split" || r.action == "extend_match") && r.dest == some "passes" then
      match r.default with
      | some dv => dictSet acc (r.flags.headD "") dv.toList
      | none => acc
    else acc) []

def findOpt (t : List Opt) (s : String) : Option Opt := lookup (optionStrings t) s

inductive Cls
  | positional
  | unknown
  | opt (ostr : String) (o : Opt) (explicit : Option String)
  | ambiguous
deriving Repr, Inhabited

/-- `_negative_number_matcher`: `^-\d+$|^-\d*\.\d+$` -/
def isNegNumber (s : String) : Bool :=
  match s.toList with
  | '-' :: rest =>
    let intp := rest.takeWhile Char.isDigit
    let frac := rest.dropWhile Char.isDigit
    (!intp.isEmpty && frac.isEmpty) ||
    (match frac with | '.' :: d => !d.isEmpty && d.all Char.isDigit | _ => false)
  | _ => false

def splitEq : List Char → List Char → Option (List Char × List Char)
  | [], _ => none
  | c :: cs, acc => if c == '=' then some (acc.reverse, cs) else splitEq cs (c :: acc)

/-- `_parse_optional` (prefix matching of single-dash options is active even with `allow_abbrev=False`) -/
def classify (t : List Opt) (a : String) : Cls :=
  let cs := a.toList
  match cs with
  | [] => .positional
  | c0 :: tl =>
    if c0 != '-' then .positional
    else match findOpt t a with
    | some o => .opt a o none
    | none =>
      match tl with
      | [] => .positional
      | c1 :: _ =>
        let eqSplit : Option Cls :=
          match splitEq cs [] with
          | some (l, r) => (findOpt t (String.ofList l)).map fun o => .opt (String.ofList l) o (some (String.ofList r))
          | none => none
        match eqSplit with
        | some c => c
        | none =>
          let tuples : List Cls :=
            if c1 == '-' then []
            else (optionStrings t).filterMap fun (os, o) =>
              if os.toList == cs.take 2 then some (.opt os o (some (String.ofList (cs.drop 2))))
              else if cs.isPrefixOf os.toList then some (.opt os o none) else none
          match tuples with
          | _ :: _ :: _ => .ambiguous
          | [c] => c
          | [] =>
            let hasNegOpts := (optionStrings t).any fun p => isNegNumber p.1
            if isNegNumber a && !hasNegOpts then .positional
            else if cs.contains ' ' then .positional
            else .unknown

def isPositional (t : List Opt) (a : String) : Bool :=
  match classify t a with | .positional => true | _ => false
def isAmbiguous (t : List Opt) (a : String) : Bool :=
  match classify t a with | .ambiguous => true | _ => false

/-- `re.findall(pattern, value)` for the `extend_match` rule whose first flag is `flag0`: computed by the model
    (`compute`; instantiated with `Model/Regex.lean` by `Model/CompilersRe.lean`) or, where `compute` answers
    `none` (a pattern outside the modelled fragment), read from a table supplied by the harness.
    Every theorem of `Props/C12.lean` holds for all values of this structure. -/
structure Matches where
  table : List ((String × String) × List String) := []
  compute : String → String → Option (List String) := fun _ _ => none
def Matches.tableGet (m : List ((String × String) × List String)) (flag0 v : String) : List String :=
  match m with
  | [] => []
  | ((f, x), r) :: rest => if f == flag0 && x == v then r else Matches.tableGet rest flag0 v
def Matches.get (m : Matches) (flag0 v : String) : List String :=
  match m.compute flag0 v with
  | some r => r
  | none => Matches.tableGet m.table flag0 v

/-- the argparse namespace (only what `parse_args` reads back) and parser bookkeeping -/
structure PState where
  lists : List (String × List String)
  passesByFlag : List (String × List String)      -- `namespace._passes`
  extras : List String := []
  fileLeft : Bool := true                         -- the `file` positional (nargs="*") not yet consumed
  absorbing : Bool := false                       -- inside the run of positionals that `file` is taking
  overrideUsed : List String := []                -- extend_match actions whose `override` was consumed
deriving Repr, DecidableEq, Inhabited

def PState.get (s : PState) (k : String) : List String := (lookup s.lists k).getD []
def PState.appendTo (s : PState) (k v : String) : PState := { s with lists := dictSet s.lists k (s.get k ++ [v]) }
def PState.set (s : PState) (k : String) (vs : List String) : PState := { s with lists := dictSet s.lists k vs }

def initState (rules : List Rule) : PState :=
  { lists := [("defines", []), ("include_paths", []), ("system_include_paths", []), ("include_files", []),
              ("modes", []), ("passes", [])],
    passesByFlag := passDefaults rules }

/-- `re.split(r"[=(]", d, 1)[0]`: the macro name of a `-D` value -/
def macroName (d : String) : String := String.ofList (d.toList.takeWhile fun c => c != '=' && c != '(')

/-- `take_action`: the built-in `append` / `append_const` actions and CBI's custom actions -/
def takeAction (mt : Matches) (st : PState) (ostr : String) (o : Opt) (val : Option String) : Except PErr PState :=
  match o.act, val with
  | .ignore, _ => .ok st
  | .append d, some v => .ok (st.appendTo d v)
  | .append _, none => .ok st
  | .undefine d, some v => .ok (st.set d ((st.get d).filter fun x => macroName x != v))
  | .undefine _, none => .ok st
  | .appendConst d c, _ => .ok (st.appendTo d c)
  | .storeSplit d sep fmt, some v =>
    match pySplit v sep with
    | .error e => .error e
    | .ok parts =>
      match mapM' (substitute fmt) parts with
      | .error e => .error e
      | .ok vs =>
        if d == "passes" then .ok { st with passesByFlag := dictSet st.passesByFlag (o.flags.headD ostr) vs }   -- keyed by the first spelling
        else .ok (st.set d vs)
  | .storeSplit _ _ _, none => .ok st
  | .extendMatch d flag0 fmt override, some v =>
    match mapM' (substitute fmt) (mt.get flag0 v) with
    | .error e => .error e
    | .ok ms =>
      if d == "passes" then
        let cur := (lookup st.passesByFlag flag0).getD []
        if override && !st.overrideUsed.contains flag0 then
          .ok { st with passesByFlag := dictSet st.passesByFlag flag0 ms, overrideUsed := st.overrideUsed ++ [flag0] }
        else .ok { st with passesByFlag := dictSet st.passesByFlag flag0 (cur ++ ms) }
      else if override then .ok (st.set d ms)
      else match lookup st.lists d with
        | none => .error .attributeError
        | some cur => .ok (st.set d (cur ++ ms))
  | .extendMatch _ _ _ _, none => .ok st

/-- `consume_optional` once the option tuple is known.  `next` is the following argument when it is a
    positional (pattern `A`).  Returns the new state and whether `next` was consumed.
    `fuel` bounds the walk through a cluster of single-dash zero-argument flags (`-xyz`). -/
def consumeOpt (t : List Opt) (mt : Matches) : Nat → PState → String → Opt → Option (List Char) → Option String →
    Except PErr (PState × Bool)
  | 0, _, _, _, _, _ => .error .argumentError
  | fuel + 1, st, ostr, o, exp, next =>
    match exp with
    | some e =>
      let single := match ostr.toList with | _ :: c1 :: _ => c1 != '-' | _ => true
      if o.nargs == .zero && !e.isEmpty && single then
        match takeAction mt st ostr o none with
        | .error err => .error err
        | .ok st1 =>
          match e with
          | [] => .error .argumentError
          | c :: cs =>
            let no := String.ofList ['-', c]
            match findOpt t no with
            | some o2 => consumeOpt t mt fuel st1 no o2 (if cs.isEmpty then none else some cs) next
            | none => .error .argumentError
      else if o.nargs == .one || o.nargs == .opt then
        (takeAction mt st ostr o (some (String.ofList e))).map fun s => (s, false)
      else .error .argumentError
    | none =>
      match o.nargs, next with
      | .zero, _ => (takeAction mt st ostr o none).map fun s => (s, false)
      | .one, some b => (takeAction mt st ostr o (some b)).map fun s => (s, true)
      | .one, none => .error .argumentError
      | .opt, some b => (takeAction mt st ostr o (some b)).map fun s => (s, true)
      | .opt, none => (takeAction mt st ostr o none).map fun s => (s, false)

/-- the main loop of `parse_known_args`, left to right; `skip` = the head was already taken as the
    argument of the preceding option -/
def runArgs (t : List Opt) (mt : Matches) : List String → Bool → PState → Except PErr PState
  | [], _, st => .ok st
  | a :: rest, skip, st =>
    if skip then runArgs t mt rest false st
    else match classify t a with
    | .ambiguous => .error .systemExit
    | .positional =>
      if st.absorbing then runArgs t mt rest false st
      else if st.fileLeft then runArgs t mt rest false { st with fileLeft := false, absorbing := true }
      else runArgs t mt rest false { st with extras := st.extras ++ [a] }
    | .unknown => runArgs t mt rest false { st with extras := st.extras ++ [a], absorbing := false }
    | .opt ostr o explicit =>
      let next := match rest with
        | b :: _ => if isPositional t b then some b else none
        | [] => none
      match consumeOpt t mt (a.length + 2) { st with absorbing := false } ostr o (explicit.map String.toList) next with
      | .error e => .error e
      | .ok (st1, used) => runArgs t mt rest used st1

/-- `parser.parse_known_args(args, namespace)`; the classification pass runs first, so an ambiguous
    abbreviation anywhere wins over any later `ArgumentError` -/
def parseKnown (t : List Opt) (mt : Matches) (st : PState) (args : List String) : Except PErr PState :=
  if args.contains "--" then .error (.unsupported "--")
  else if args.any (isAmbiguous t) then .error .systemExit
  else runArgs t mt args false st

/-! ## pass / mode composition (second half of `parse_args`) -/

structure PPConfig where
  passName : String
  defines : List String
  includePaths : List String
  includeFiles : List String
deriving Repr, DecidableEq, Inhabited

/-- `PreprocessorConfiguration._update` -/
def PPConfig.update (c : PPConfig) (m : ModeDef) : PPConfig :=
  { c with defines := c.defines ++ m.defines, includePaths := c.includePaths ++ m.includePaths,
           includeFiles := c.includeFiles ++ m.includeFiles }

/-- body of `for mode_name in modes:` -/
def modeStep (c : Compiler) (acc : PPConfig × List Log) (m : String) : PPConfig × List Log :=
  match lookup c.modes m with
  | none => (acc.1, acc.2 ++ [.badMode m])
  | some md => (acc.1.update md, acc.2)

/-- body of `for pass_name in args.passes:` — `none` = the `continue` after "Unrecognized compiler pass" -/
def buildPass (c : Compiler) (base : PPConfig) (activeModes : List String) (p : String) : Option PPConfig × List Log :=
  let cfg0 := { base with passName := p }
  if p == "default" then
    let r := activeModes.foldl (modeStep c) (cfg0, [])
    (some r.1, r.2)
  else match lookup c.passes p with
    | none => (none, [.badPass p])
    | some pd =>
      let r := pd.modes.foldl (modeStep c) (cfg0.update pd.toModeDef, [])
      (some r.1, r.2)

/-- `args.passes` after the three set unions (first-occurrence order instead of set order) -/
def selectedPasses (st : PState) : List String :=
  dedup (st.get "passes" ++ st.passesByFlag.flatMap (·.2) ++ ["default"])

def activeModes (st : PState) : List String := dedup (st.get "modes")

def baseConfig (st : PState) : PPConfig :=
  ⟨"", st.get "defines", st.get "include_paths" ++ st.get "system_include_paths", st.get "include_files"⟩

def compose (c : Compiler) (st : PState) : List PPConfig × List Log :=
  let rs := (selectedPasses st).map (buildPass c (baseConfig st) (activeModes st))
  (rs.filterMap (·.1), rs.flatMap (·.2))

/-- `ArgumentParser.parse_args` -/
def parseArgs (c : Compiler) (mt : Matches) (argv : List String) : Except PErr (List PPConfig × List Log) :=
  match addRules c.parser baseTable with
  | .error e => .error e
  | .ok t =>
    match parseKnown t mt (initState c.parser) (argv ++ c.options) with
    | .error e => .error e
    | .ok st =>
      let l0 : List Log := if st.extras.isEmpty then [] else [.unrecognizedArgs st.extras]
      let (cfgs, l1) := compose c st
      .ok (cfgs, l0 ++ l1)

/-- `ArgumentParser(argv0).parse_args(argv)` against a loaded compiler map -/
def emulate (cs : CompilerMap) (mt : Matches) (name : String) (argv : List String) :
    Except PErr (List PPConfig × List Log) :=
  let r := resolve cs name
  match parseArgs r.compiler mt argv with
  | .error e => .error e
  | .ok (cfgs, l) => .ok (cfgs, r.logs name ++ l)

/-! ## `load_database`: one entry per pass, and `finder.find`'s attribution (abstractly) -/

structure Command where
  file : String            -- already resolved, existing, supported (that part is C13's)
  filedir : String         -- absolute directory the command ran in
  argv0 : String           -- base name of arguments[0]
  argv : List String
deriving Repr, Inhabited

structure Entry where
  file : String
  cfg : PPConfig
deriving Repr, DecidableEq, Inhabited

/-- `os.path.abspath(os.path.join(filedir, f))` for clean paths (no `.`/`..`/`//`; normalisation is C13's) -/
def absJoin (dir f : String) : String :=
  match f.toList with
  | '/' :: _ => f
  | _ => dir ++ "/" ++ f

def entriesOf (cmd : Command) (cfgs : List PPConfig) : List Entry :=
  cfgs.map fun cfg => ⟨cmd.file, { cfg with includePaths := cfg.includePaths.map (absJoin cmd.filedir) }⟩

/-- the per-command part of `load_database` -/
def loadDatabase (cs : CompilerMap) (mt : Matches) : List Command → Except PErr (List Entry × List Log)
  | [] => .ok ([], [])
  | cmd :: r =>
    match emulate cs mt cmd.argv0 cmd.argv with
    | .error e => .error e
    | .ok (cfgs, l) =>
      match loadDatabase cs mt r with
      | .error e => .error e
      | .ok (es, l2) => .ok (entriesOf cmd cfgs ++ es, l ++ l2)

/-- `finder.find`: every entry of every platform is associated on its own `Platform` object and adds the
    platform's name to the nodes it uses.  `uses e n` abstracts "node `n` is reached by the associator
    for entry `e`" (C01/C04's semantics). -/
def attributeAll {Node} (uses : Entry → Node → Bool) (nodes : List Node) (config : List (String × List Entry)) :
    List (Node × String) :=
  config.foldl (fun acc pe => pe.2.foldl (fun acc e => acc ++ (nodes.filter (uses e)).map fun n => (n, pe.1)) acc) []

end CbiVerif.Compilers
