"""Generator of multi-directory include trees (C04) + an independent reference preprocessor
for the generated language + the gcc oracle + adapters to the real `finder.find`.

Everything is described by a JSON-able `desc`:
  files   {relpath: [lines]}           (posix paths relative to the scratch root)
  links   [[link_rel, target_rel]]     directory symlinks
  entries [{file, directory, flags [[kind, dir]], defines [..], forced [..], argv [..]}]
          kind in {"I", "Ij" (attached -Idir), "isystem"}; one platform ("p<k>") per entry.

The reference preprocessor (`ref_run`) is written from the C rules for the small directive language
the generator emits; it shares no code with codebasin or with the Lean model.
"""
from __future__ import annotations

import json
import os
import posixpath
import re
import subprocess

HDRS = ["h0.h", "h1.h", "h2.h", "h3.h", "h4.h"]
DIRS = ["src", "src/sub", "inc1", "inc2", "sys1", "sys2"]
FLAGDIRS = ["inc1", "inc2", "sys1", "sys2", "src/sub"]
MACROS = ["A", "B", "C"]


# --------------------------------------------------------------------------
# generation
# --------------------------------------------------------------------------
class Gen:
    def __init__(self, rng, sym=False, forced=True, d33=False, dup_forced=True):
        self.rng = rng
        self.mark = 0
        self.hmac = 0
        self.sym = sym
        self.forced = forced
        self.d33 = d33
        self.dup_forced = dup_forced
        self.view = None
        self.entries = []

    def marker(self):
        self.mark += 1
        return f"int m{self.mark};"

    def cond(self):
        r = self.rng
        n, m = r.choice(MACROS), r.choice(MACROS)
        return r.choice([
            f"defined({n})", f"!defined({n})", f"{n}", f"{n} == 1", f"{n} > 0 && !defined({m})",
            f"defined({n}) || defined({m})", f"{n} + {m} >= 2", "0", "1", f"defined {n} && {n} != 2",
        ])

    def resolvable(self, name, here_dir, quote):
        """does the include resolve for every entry (so that the tree stays well-formed)?"""
        if self.view is None:
            return True
        return all(self.view.resolve(name, here_dir, quote, search_dirs(e["flags"], self.view.links.items())) is not None for e in self.entries)

    def include_lines(self, idx, here_dir):
        """an include directive for a header with index > idx (quote / angle / computed / with path)"""
        r = self.rng
        cands = [h for h in HDRS if HDRS.index(h) > idx]
        if not cands:
            return []
        opts = []
        for h in cands:
            for quote in (True, False):
                if self.resolvable(h, here_dir, quote):
                    opts.append((h, quote))
        form = r.random()
        if form < 0.12 or not opts:
            # a path with a directory part, relative to the includer or to an include directory
            h = r.choice(cands)
            tgt = r.choice(["sub/" + h, "../inc1/" + h, "../" + r.choice(DIRS) + "/" + h])
            quote = r.random() < 0.7
            if not self.resolvable(tgt, here_dir, quote):
                return []
            return [f'#include "{tgt}"' if quote else f"#include <{tgt}>"]
        h, quote = r.choice(opts)
        spec = f'"{h}"' if quote else f"<{h}>"
        if form < 0.75:
            return [f"#include {spec}"]
        # computed include
        self.hmac += 1
        name = f"HDR{self.hmac}"
        if r.random() < 0.3:
            self.hmac += 1
            via = f"HDR{self.hmac}"
            return [f"#define {via} {spec}", f"#define {name} {via}", f"#include {name}"]
        return [f"#define {name} {spec}", f"#include {name}"]

    def body(self, idx, here_dir, depth, budget):
        r = self.rng
        out = []
        for _ in range(r.randint(1, 4)):
            if budget[0] <= 0:
                break
            budget[0] -= 1
            x = r.random()
            if x < 0.30:
                out.append(self.marker())
            elif x < 0.36:
                out.append(r.choice(["// comment", "/* c */", ""]))
            elif x < 0.50:
                n = r.choice(MACROS)
                k = r.random()
                if k < 0.45:
                    out += [f"#undef {n}", f"#define {n} {r.randint(0, 2)}"]
                elif k < 0.75:
                    out += [f"#ifndef {n}", f"#define {n} {r.randint(0, 2)}", "#endif"]
                else:
                    out.append(f"#undef {n}")
            elif x < 0.78:
                out += self.include_lines(idx, here_dir)
            elif depth > 0:
                out.append(r.choice([f"#if {self.cond()}", f"#ifdef {r.choice(MACROS)}", f"#ifndef {r.choice(MACROS)}"]))
                out += self.body(idx, here_dir, depth - 1, budget)
                if r.random() < 0.35:
                    out.append(f"#elif {self.cond()}")
                    out += self.body(idx, here_dir, depth - 1, budget)
                if r.random() < 0.5:
                    out.append("#else")
                    out += self.body(idx, here_dir, depth - 1, budget)
                out.append("#endif")
            else:
                out.append(self.marker())
        return out

    def tree(self):
        r = self.rng
        files = {}
        sources = ["src/main.c"] + (["src/sub/other.c"] if r.random() < 0.35 else [])
        links = []
        flagdirs = list(FLAGDIRS)
        if self.sym and r.random() < 0.8:
            tgt = r.choice(["inc1", "inc2", "sys1"])
            links.append(["lnk_" + tgt, tgt])
            flagdirs.append("lnk_" + tgt)
        entries = []
        for s in sources:
            k = r.randint(0, min(4, len(flagdirs)))
            dirs = r.sample(flagdirs, k)
            if links and r.random() < 0.7 and links[0][0] not in dirs:
                dirs.insert(r.randint(0, len(dirs)), links[0][0])
            flags = []
            for d in dirs:
                kind = r.choice(["I", "I", "Ij", "isystem"])
                flags.append([kind, d])
            # gcc drops a -I directory that is also a system directory (by identity): keep that out of WF
            real = {l: t for l, t in links}
            sysdirs = {real.get(d, d) for kd, d in flags if kd == "isystem"}
            flags = [[kd, d] for kd, d in flags if kd == "isystem" or real.get(d, d) not in sysdirs]
            defines = [f"{n}={r.randint(0, 2)}" if r.random() < 0.7 else n for n in MACROS if r.random() < 0.3]
            entries.append({"file": s, "directory": ".", "flags": flags, "defines": defines, "forced": []})
            if len(flags) >= 2 and r.random() < 0.35:
                # a second command for the same file that searches the same directories in another order
                # (what one command found must not be served to the other)
                f2 = [list(x) for x in flags]
                r.shuffle(f2)
                entries.append({"file": s, "directory": ".", "flags": f2, "defines": list(defines) if r.random() < 0.6 else [], "forced": []})
        self.entries = entries
        # which header exists where: the same name beside the includer and in several flag directories
        nh = r.randint(2, len(HDRS))
        placement = {}
        for h in HDRS[:nh]:
            places = [d for d in DIRS if r.random() < 0.5]
            if r.random() < 0.25:
                places.append("")      # also at the top of the tree (the analysis root): never searched unless named by a flag
            if not places:
                places = [r.choice(DIRS)]
            for d in places:
                placement[posixpath.join(d, h)] = []
        self.view = Tree({"files": placement, "links": links})
        for p in sorted(placement, key=lambda q: -HDRS.index(posixpath.basename(q))):
            d, h = posixpath.dirname(p), posixpath.basename(p)
            idx = HDRS.index(h)
            b = [self.marker()] + self.body(idx, d, 2, [7])
            if r.random() < 0.6:
                # re-entry detector: the marker is compiled only on a second pass over this file
                seen = "SEEN_" + re.sub(r"\W", "_", p).upper()
                b += [f"#ifdef {seen}", self.marker(), "#endif", f"#define {seen} 1"]
            style = r.random()
            if style < 0.28:
                g = "G_" + re.sub(r"\W", "_", d + "_" + h).upper()
                b = [f"#ifndef {g}", f"#define {g}"] + b + ["#endif"]
            elif style < 0.40:
                # not a full include guard: the guard has an #else branch, or further text follows its #endif
                g = "G_" + re.sub(r"\W", "_", d + "_" + h).upper()
                if r.random() < 0.5:
                    b = [f"#ifndef {g}", f"#define {g}"] + b + ["#else", self.marker(), f"#define {g}_AGAIN 1", "#endif"]
                else:
                    b = [f"#ifndef {g}", f"#define {g}"] + b + ["#endif", r.choice([f"#ifdef {g}", f"#ifdef {r.choice(MACROS)}", "#if 1"]),
                                                                 self.marker(), "#endif"]
            elif style < 0.46:
                # `#pragma once` in a group that is not entered has no effect: the header is processed at every inclusion
                b = ["#if defined(C04_NEVER_DEFINED)", "#pragma once", "#endif"] + b
            elif style < 0.65:
                b = ["#pragma once"] + b
            files[p] = b
        for s in sources:
            files[s] = self.body(-1, posixpath.dirname(s), 3, [14])
            if not any(l.startswith("#include") for l in files[s]):
                files[s] = self.include_lines(-1, posixpath.dirname(s)) + files[s]
            # include something a second time (top level, so it is reached)
            incs = [l for l in files[s] if l.startswith("#include") and not l.startswith("#include HDR")]
            for _ in range(r.randint(0, 2)):
                if incs:
                    files[s].append(r.choice(incs))
                    files[s].append(self.marker())
        if r.random() < 0.25:
            # a dispatch header: one computed include directive reached twice in a unit with another value of the macro
            hs = sorted(p for p in files if p.startswith("src/") and p.endswith(".h") and posixpath.dirname(p) == "src")
            if len(hs) >= 2:
                a, b2 = r.sample(hs, 2)
                files["src/dispatch.h"] = [self.marker(), "#include C04_IMPL", self.marker()]
                files["src/main.c"] += [f'#define C04_IMPL "{posixpath.basename(a)}"', '#include "dispatch.h"', "#undef C04_IMPL",
                                        f'#define C04_IMPL "{posixpath.basename(b2)}"', '#include "dispatch.h"', self.marker()]
        if r.random() < 0.3:
            # the guard of an include-guarded header is undefined before the header is included again: it is processed again
            for p in sorted(files):
                b = files[p]
                if p.startswith("src/") and posixpath.dirname(p) == "src" and len(b) > 2 and b[0].startswith("#ifndef G_") and b[1].startswith("#define G_") \
                        and b[-1] == "#endif":
                    g = b[0].split()[1]
                    files["src/main.c"] += [f'#include "{posixpath.basename(p)}"', f"#undef {g}", "#undef A", r.choice(["#define A 2", "#define A 0", "#undef B"]),
                                            f'#include "{posixpath.basename(p)}"', self.marker()]
                    break
        if r.random() < 0.2:
            # a header that includes itself for a second pass (X-macro style): the nested visit happens while the
            # first one is still open, takes the other branch and defines a macro the includer tests afterwards
            files["src/twopass.h"] = ["#ifndef TWOPASS_SECOND", "#define TWOPASS_SECOND", self.marker(), '#include "twopass.h"', self.marker(),
                                      "#else", self.marker(), "#define TWOPASS_DONE 1", "#endif"]
            files["src/main.c"] = ['#include "twopass.h"', "#ifdef TWOPASS_DONE", self.marker(), "#else", self.marker(), "#endif"] + files["src/main.c"]
        for e in entries:
            if self.forced and r.random() < 0.3:
                e["forced"] = self.forced_headers(files, e["flags"], e["file"])
        desc = {"files": files, "links": links, "entries": entries}
        for e in entries:
            e["argv"] = argv_of(e, self.rng)
        if not self.d33:
            repair(desc, self)
        return desc

    def forced_headers(self, files, flags, src):
        r = self.rng
        name = f"forced{r.randint(0, 1)}.h"
        mac = r.choice(MACROS)
        body = [self.marker(), f"#undef {mac}", f"#define {mac} {r.randint(0, 2)}"] if r.random() < 0.7 else [self.marker()]
        # re-entry detector: its marker is compiled only if the file is processed a second time
        seen = "SEEN_" + name.replace(".", "_").upper()
        body += [f"#ifdef {seen}", self.marker(), "#endif", f"#define {seen} 1"]
        once = r.random() < 0.5
        if once:
            body = ["#pragma once"] + body
        if r.random() < 0.3:
            body += self.include_lines(-1, "")
        if self.d33:
            # placement on which "search the source file's directory first" and "search the compiler's
            # working directory first" disagree
            where = r.choice(["src_only", "cwd_only", "both"])
            if where in ("src_only", "both"):
                files[posixpath.join(posixpath.dirname(src), name)] = list(body)
            if where in ("cwd_only", "both"):
                files[name] = [self.marker()] + list(body)
            return [name]
        dirs = [d[4:] if d.startswith("lnk_") else d for _, d in flags]
        if not dirs:
            return []
        files[posixpath.join(r.choice(dirs), name)] = body
        out = [name]
        if self.dup_forced and r.random() < 0.4:
            out.append(name)          # the same file forced twice on one command line
        if self.dup_forced and r.random() < 0.4 and src in files:
            # … and/or included again by the source file itself
            files[src].insert(r.randint(0, len(files[src])), f"#include <{name}>" if r.random() < 0.5 else f'#include "{name}"')
        return out


def repair(desc, gen, limit=60):
    """make the tree well-formed: an include that the reference preprocessor reaches and cannot resolve is
    replaced by a code line (missing headers are outside C04: gcc rejects them)"""
    for _ in range(limit):
        missing = []
        for k in range(len(desc["entries"])):
            try:
                missing += ref_run(desc, k, "cwd")["missing"]
            except RecursionError:
                return False
        missing = [m for m in missing if m[0] != "<command line>"]
        if not missing:
            return True
        for f, ln, _ in missing:
            if desc["files"][f][ln - 1].lstrip().startswith("#"):
                desc["files"][f][ln - 1] = gen.marker()
    return False


def argv_of(e, rng):
    """the compiler command line: flags in the given order, -D / -include interleaved"""
    parts = []
    for kind, d in e["flags"]:
        parts.append(["-I", d] if kind == "I" else ["-I" + d] if kind == "Ij" else ["-isystem", d])
    for d in e["defines"]:
        parts.append(["-D" + d] if rng.random() < 0.7 else ["-D", d])
    inc = [["-include", f] for f in e["forced"]]
    # forced includes keep their relative order; everything else is interleaved freely
    pos = sorted(rng.randint(0, len(parts)) for _ in inc)
    for off, (p, i) in enumerate(zip(pos, inc)):
        parts.insert(p + off, i)
    if rng.random() < 0.3:
        parts.insert(rng.randint(0, len(parts)), ["-O2"])
    argv = ["gcc"] + [x for p in parts for x in p] + ["-c", e["file"]]
    return argv


def write_tree(root, desc):
    root = str(root)
    for p, b in desc["files"].items():
        full = os.path.join(root, p)
        os.makedirs(os.path.dirname(full), exist_ok=True)
        with open(full, "w") as f:
            f.write("\n".join(b) + ("\n" if b else ""))
    for d in DIRS:
        os.makedirs(os.path.join(root, d), exist_ok=True)
    for ln, tgt in desc["links"]:
        full = os.path.join(root, ln)
        if not os.path.lexists(full):
            os.symlink(tgt, full)
    db = []
    for e in desc["entries"]:
        db.append({"file": e["file"], "directory": os.path.normpath(os.path.join(root, e["directory"])), "arguments": e["argv"]})
    return db


# --------------------------------------------------------------------------
# the compiler's rule, independently of codebasin and of the Lean model
# --------------------------------------------------------------------------
def search_dirs(flags, links=()):
    """the compiler's search chain: all -I in command-line order, then all -isystem in command-line order;
    a -I directory that is also given with -isystem (same directory, symlinks resolved) is ignored as -I and
    searched only at its -isystem position (gcc: "If a … directory specified with -isystem is also specified
    with -I, the -I option is ignored")"""
    real = {l: t for l, t in links}

    def ident(d):
        d = posixpath.normpath(d)
        return real.get(d, d)

    sysids = {ident(d) for k, d in flags if k == "isystem"}
    return [d for k, d in flags if k in ("I", "Ij") and ident(d) not in sysids] + [d for k, d in flags if k == "isystem"]


class Tree:
    """view of the generated tree: existence and identity of files (symlinked directories resolved)"""

    def __init__(self, desc):
        self.files = desc["files"]
        self.links = {l: t for l, t in desc["links"]}

    def real(self, p):
        p = posixpath.normpath(p)
        parts = p.split("/")
        for i in range(len(parts), 0, -1):
            pre = "/".join(parts[:i])
            if pre in self.links:
                return posixpath.normpath("/".join([self.links[pre]] + parts[i:]))
        return p

    def isfile(self, p):
        if p.startswith("../") or p == "..":
            return False
        return self.real(p) in self.files

    def resolve(self, name, includer_dir, quote, dirs):
        """first existing candidate: [dir of includer if quote] + dirs"""
        for d in ([includer_dir] if quote else []) + list(dirs):
            c = posixpath.normpath(posixpath.join(d, name))
            if self.isfile(c):
                return c
        return None


def _expand(tok, macros, depth=0):
    if depth > 20:
        return tok
    out = []
    for t in re.findall(r"[A-Za-z_]\w*|\d+|\S", tok):
        if re.match(r"[A-Za-z_]", t) and t in macros:
            out.append(_expand(macros[t], macros, depth + 1))
        else:
            out.append(t)
    return " ".join(out)


def eval_cond(expr, macros):
    e = re.sub(r"defined\s*\(\s*(\w+)\s*\)|defined\s+(\w+)", lambda m: "1" if (m.group(1) or m.group(2)) in macros else "0", expr)
    e = _expand(e, macros)
    e = re.sub(r"[A-Za-z_]\w*", "0", e)
    e = e.replace("& &", "&&").replace("| |", "||").replace("= =", "==").replace("! =", "!=").replace("> =", ">=").replace("< =", "<=")
    e = e.replace("&&", " and ").replace("||", " or ")
    e = re.sub(r"!(?!=)", " not ", e)
    return bool(eval(e, {"__builtins__": {}}, {}))  # noqa: S307 (generated arithmetic only)


def ref_run(desc, k, forced_from="cwd", keep_first=False):
    """Reference preprocessing of entry k.  Returns dict(markers, lookups, missing, once_skips).
    lookups: [(includer_file, line, name, form, resolved_real_or_None)] for every include directive that
    is reached, in order.  `forced_from`: where a -include name is searched first:
    "cwd" (the compiler's rule) or "src" (directory of the source file)."""
    t = Tree(desc)
    e = desc["entries"][k]
    dirs = search_dirs(e["flags"], desc["links"])
    macros = {}
    for d in e["defines"]:
        n, _, v = d.partition("=")
        macros.setdefault(n, v if "=" in d else "1")
    res = {"markers": set(), "lookups": [], "missing": [], "once_skips": 0, "depth": 0, "multi": 0}
    once = set()

    def process(path, depth):
        res["depth"] = max(res["depth"], depth)
        if depth > 40:
            raise RecursionError(path)
        lines = t.files[path]
        here = posixpath.dirname(path)
        stack = []  # (parent_active, taken, active)

        def active():
            return all(f[2] for f in stack)

        for ln, text in enumerate(lines, 1):
            s = text.strip()
            m = re.match(r"#\s*(\w+)\s*(.*)$", s)
            if not m:
                if active() and s.startswith("int m"):
                    res["markers"].add((path, ln))
                continue
            d, rest = m.group(1), re.sub(r"//.*$|/\*.*?\*/", "", m.group(2)).strip()
            if d in ("if", "ifdef", "ifndef"):
                pa = active()
                if not pa:
                    stack.append((False, True, False))
                else:
                    v = eval_cond(rest, macros) if d == "if" else ((rest in macros) == (d == "ifdef"))
                    stack.append((True, v, v))
            elif d == "elif":
                pa, taken, _ = stack[-1]
                if not pa or taken:
                    stack[-1] = (pa, taken, False)
                else:
                    v = eval_cond(rest, macros)
                    stack[-1] = (True, v, v)
            elif d == "else":
                pa, taken, _ = stack[-1]
                stack[-1] = (pa, True, pa and not taken)
            elif d == "endif":
                stack.pop()
            elif not active():
                continue
            elif d == "define":
                mm = re.match(r"(\w+)\s*(.*)$", rest)
                # redefinition with a different body is ill-formed C; `keep_first` = what CBI does with it
                if not (keep_first and mm.group(1) in macros):
                    macros[mm.group(1)] = mm.group(2)
            elif d == "undef":
                macros.pop(rest, None)
            elif d == "pragma":
                if rest.split()[:1] == ["once"]:
                    once.add(t.real(path))
            elif d == "include":
                spec = rest
                if not (spec.startswith('"') or spec.startswith("<")):
                    spec = _expand(spec, macros).replace(" ", "")
                quote = spec.startswith('"')
                name = spec[1:-1]
                cands = [posixpath.normpath(posixpath.join(dd, name)) for dd in ([here] if quote else []) + dirs]
                if len({t.real(c) for c in cands if t.isfile(c)}) > 1:
                    res["multi"] += 1
                found = t.resolve(name, here, quote, dirs)
                res["lookups"].append((path, ln, name, "user" if quote else "system", t.real(found) if found else None))
                if found is None:
                    res["missing"].append((path, ln, name))
                elif t.real(found) in once:
                    res["once_skips"] += 1
                else:
                    process(t.real(found), depth + 1)

    src = e["file"]
    for f in e["forced"]:
        first = posixpath.normpath(e["directory"]) if forced_from == "cwd" else posixpath.dirname(src)
        first = "" if first == "." else first
        found = t.resolve(f, first, True, dirs)
        res["lookups"].append(("<command line>", 0, f, "forced", t.real(found) if found else None))
        if found is None:
            res["missing"].append(("<command line>", 0, f))
        elif t.real(found) in once:
            res["once_skips"] += 1
        else:
            process(t.real(found), 1)
    process(src, 0)
    return res


def gcc_markers(root, desc, k):
    """surviving marker lines according to `gcc -E` run from the entry's directory; None if gcc complains"""
    e = desc["entries"][k]
    argv = [a for a in e["argv"][1:] if a not in ("-c", e["file"], "-O2")]
    cwd = os.path.normpath(os.path.join(str(root), e["directory"]))
    r = subprocess.run(["gcc", "-E", "-P", "-undef", "-nostdinc", "-x", "c"] + argv + [os.path.relpath(os.path.join(str(root), e["file"]), cwd)],
                       cwd=cwd, capture_output=True, text=True)
    if r.returncode or r.stderr.strip():
        return None
    return set(int(x) for x in re.findall(r"\bint m(\d+);", r.stdout))


def marker_ids(desc, marks):
    """{(file, line)} -> {marker number}"""
    out = set()
    for p, ln in marks:
        m = re.match(r"int m(\d+);", desc["files"][p][ln - 1].strip())
        if m:
            out.add(int(m.group(1)))
    return out


# --------------------------------------------------------------------------
# adapters to the real code
# --------------------------------------------------------------------------
KIND = {"CodeNode": "code", "IfNode": "ifk", "ElIfNode": "elifk", "ElseNode": "elsek", "EndIfNode": "endk",
        "DefineNode": "define", "UndefNode": "undef", "IncludeNode": "include", "PragmaNode": "pragma",
        "UnrecognizedDirectiveNode": "unrecognized"}
SRC_EXT = (".c", ".cpp", ".cc", ".h", ".hpp", ".cxx", ".hxx")


def run_real(root, dbs, want_lookups=True):
    """finder.find over `dbs` = {platform: database path}.  Returns dict(ok {file: rows}, cfg, lookups, codebase) or dict(exc)."""
    from codebasin import CodeBase, config, finder
    from codebasin import platform as plat
    from codebasin import preprocessor as pp

    root = str(root)
    lookups = []
    orig = plat.Platform.find_include_file

    def spy(self, filename, this_path, is_system_include=False):
        r = orig(self, filename, this_path, is_system_include)
        lookups.append([self.name, filename, this_path, bool(is_system_include), r])
        return r

    visits = []
    orig_ev = pp.IncludeNode.evaluate_for_platform

    def spy_ev(self, **kw):
        visits.append([kw["platform"].name, kw["filename"], self.start_line])
        return orig_ev(self, **kw)

    if want_lookups:
        plat.Platform.find_include_file = spy
        pp.IncludeNode.evaluate_for_platform = spy_ev
    try:
        cfg = {p: config.load_database(db, root) for p, db in dbs.items()}
        cb = CodeBase(root)
        st = finder.find(root, cb, cfg, summarize_only=False)
        out = {}
        for f in st.get_filenames():
            tree = st.get_tree(f)
            m = st.get_map(f)
            out[f] = [[KIND[type(n).__name__], list(n.lines), sorted(m[n])] for n in tree.walk() if isinstance(n, pp.CodeNode)]
        return {"ok": out, "cfg": cfg, "lookups": lookups, "visits": visits, "codebase": sorted(cb)}
    except Exception as ex:  # noqa
        return {"exc": type(ex).__name__ + ": " + str(ex)[:200], "lookups": lookups}
    finally:
        plat.Platform.find_include_file = orig
        pp.IncludeNode.evaluate_for_platform = orig_ev


def model_request(root, real, links=()):
    """driver request `findinc` for the files now on disk under root"""
    root = str(root)
    files = {}
    for dp, dn, fn in os.walk(root):
        for f in fn:
            p = os.path.join(dp, f)
            if p.endswith(SRC_EXT) and not os.path.islink(p):
                with open(p) as fh:
                    files[p] = fh.read()
    cfg = real["cfg"]
    return {"op": "findinc", "files": files, "links": [[os.path.join(root, l), os.path.join(root, t)] for l, t in links],
            "codebase": real["codebase"],
            "config": [{"name": p, "entries": [{"file": e["file"], "defines": e["defines"], "include_paths": e["include_paths"],
                                               "include_files": e["include_files"]} for e in cfg[p]]} for p in cfg]}


def write_dbs(root, desc, db):
    dbs = {}
    for k, ent in enumerate(db):
        p = os.path.join(str(root), f"db{k}.json")
        with open(p, "w") as f:
            json.dump([ent], f)
        dbs[f"p{k}"] = p
    return dbs
