import CbiVerif.Lemmas.Order

/-!
C14 helper lemmas, part 2: the sort key of the summary table is a total order;
order independence of the metrics for arbitrary float operations.
-/
namespace CbiVerif.Order

/-! ## the sort key `(len(s), sorted(s))` -/

theorem lexLe_total : ∀ a b : List String, lexLe a b || lexLe b a
  | [], _ => by simp [lexLe]
  | _ :: _, [] => by simp [lexLe]
  | a :: as, b :: bs => by
    simp only [lexLe]
    rcases lt_trichotomy a b with h | h | h
    · simp [h]
    · subst h; simp [lexLe_total as bs]
    · have h1 : ¬ a < b := lt_asymm h
      have h2 : ¬ a = b := fun e => by subst e; exact lt_irrefl _ h
      simp [h1, h2, h]

theorem lexLe_antisymm : ∀ a b : List String, lexLe a b → lexLe b a → a = b
  | [], [] => by simp
  | [], _ :: _ => by simp [lexLe]
  | _ :: _, [] => by simp [lexLe]
  | a :: as, b :: bs => by
    simp only [lexLe]
    rcases lt_trichotomy a b with h | h | h
    · have h1 : ¬ b < a := lt_asymm h
      have h2 : ¬ b = a := fun e => by subst e; exact lt_irrefl _ h
      simp [h, h1, h2]
    · subst h
      simp only [lt_irrefl, if_false, if_true]
      intro h1 h2
      rw [lexLe_antisymm as bs h1 h2]
    · have h1 : ¬ a < b := lt_asymm h
      have h2 : ¬ a = b := fun e => by subst e; exact lt_irrefl _ h
      simp [h, h1, h2]

theorem lexLe_trans : ∀ a b c : List String, lexLe a b → lexLe b c → lexLe a c
  | [], _, _ => by simp [lexLe]
  | _ :: _, [], _ => by simp [lexLe]
  | _ :: _, _ :: _, [] => by simp [lexLe]
  | a :: as, b :: bs, c :: cs => by
    simp only [lexLe]
    intro h1 h2
    rcases lt_trichotomy a b with hab | hab | hab
    · rcases lt_trichotomy b c with hbc | hbc | hbc
      · simp [lt_trans hab hbc]
      · subst hbc; simp [hab]
      · have n1 : ¬ b < c := lt_asymm hbc
        have n2 : ¬ b = c := fun e => by subst e; exact lt_irrefl _ hbc
        simp [n1, n2] at h2
    · subst hab
      simp only [lt_irrefl, if_false, if_true] at h1
      rcases lt_trichotomy a c with hbc | hbc | hbc
      · simp [hbc]
      · subst hbc
        simp only [lt_irrefl, if_false, if_true] at h2 ⊢
        exact lexLe_trans as bs cs h1 h2
      · have n1 : ¬ a < c := lt_asymm hbc
        have n2 : ¬ a = c := fun e => by subst e; exact lt_irrefl _ hbc
        simp [n1, n2] at h2
    · have n1 : ¬ a < b := lt_asymm hab
      have n2 : ¬ a = b := fun e => by subst e; exact lt_irrefl _ hab
      simp [n1, n2] at h1

theorem keyLe_total (a b : PSet) : keyLe a b || keyLe b a := by
  unfold keyLe
  rcases Nat.lt_trichotomy a.length b.length with h | h | h
  · simp [h]
  · have := lexLe_total a b
    simp only [Bool.or_eq_true] at this
    rcases this with t | t <;> simp [h, t]
  · simp [h]

theorem keyLe_antisymm (a b : PSet) : keyLe a b → keyLe b a → a = b := by
  unfold keyLe
  simp only [Bool.or_eq_true, decide_eq_true_eq, Bool.and_eq_true, beq_iff_eq]
  rintro (h1 | ⟨h1, l1⟩) (h2 | ⟨h2, l2⟩)
  · omega
  · omega
  · omega
  · exact lexLe_antisymm a b l1 l2

theorem keyLe_trans (a b c : PSet) : keyLe a b → keyLe b c → keyLe a c := by
  unfold keyLe
  simp only [Bool.or_eq_true, decide_eq_true_eq, Bool.and_eq_true, beq_iff_eq]
  rintro (h1 | ⟨h1, l1⟩) (h2 | ⟨h2, l2⟩)
  · left; omega
  · left; omega
  · left; omega
  · right; exact ⟨by omega, lexLe_trans a b c l1 l2⟩

theorem entryLe_total (a b : PSet × Nat) : entryLe a b || entryLe b a := keyLe_total _ _
theorem entryLe_trans (a b c : PSet × Nat) : entryLe a b → entryLe b c → entryLe a c := keyLe_trans _ _ _

/-- on a dict (distinct keys as sets) the comparison is antisymmetric on the entries -/
theorem entryLe_antisymm_on {sm : Setmap} (h : (sm.map fun e => canon e.1).Nodup) :
    ∀ a ∈ sm, ∀ b ∈ sm, entryLe a b → entryLe b a → a = b := by
  intro a ha b hb h1 h2
  exact List.inj_on_of_nodup_map h ha hb (keyLe_antisymm _ _ h1 h2)

theorem total_perm {sm sm' : Setmap} (h : sm.Perm sm') : total sm = total sm' :=
  (h.map _).sum_nat

theorem eq_nil_iff_of_perm {α : Type} {l l' : List α} (h : l.Perm l') : l = [] ↔ l' = [] :=
  ⟨fun e => by subst e; exact h.symm.eq_nil, fun e => by subst e; exact h.eq_nil⟩

theorem summaryRowsWith_perm {F : Type} {le : PSet × Nat → PSet × Nat → Bool} (ops : FloatOps F)
    {sm sm' : Setmap}
    (trans : ∀ a b c, le a b → le b c → le a c) (total_ : ∀ a b, le a b || le b a)
    (antisymm : ∀ a ∈ sm, ∀ b ∈ sm, le a b → le b a → a = b) (h : sm.Perm sm') :
    summaryRowsWith le ops sm = summaryRowsWith le ops sm' := by
  unfold summaryRowsWith
  rw [total_perm h, mergeSort_eq_of_perm trans total_ antisymm h]
  simp only [eq_nil_iff_of_perm h, ne_eq]

/-! ## metrics -/

theorem platformsSorted_perm {sm sm' : Setmap} (h : sm.Perm sm') : platformsSorted sm = platformsSorted sm' :=
  canon_perm (h.flatMap_right _)

theorem unionCount_perm {sm sm' : Setmap} (h : sm.Perm sm') (p q : String) :
    unionCount sm p q = unionCount sm' p q := (h.map _).sum_nat
theorem xorCount_perm {sm sm' : Setmap} (h : sm.Perm sm') (p q : String) :
    xorCount sm p q = xorCount sm' p q := (h.map _).sum_nat
theorem usedBy_perm {sm sm' : Setmap} (h : sm.Perm sm') (ps : List String) :
    usedBy sm ps = usedBy sm' ps := (h.map _).sum_nat

variable {F : Type}

theorem distance_perm' (ops : FloatOps F) {sm sm' : Setmap} (h : sm.Perm sm') (p q : String) :
    distance ops sm p q = distance ops sm' p q := by
  unfold distance; rw [unionCount_perm h, xorCount_perm h]

theorem divergenceOn_perm' (ops : FloatOps F) {sm sm' : Setmap} (h : sm.Perm sm') (plats : List String) :
    divergenceOn ops sm plats = divergenceOn ops sm' plats := by
  unfold divergenceOn
  have : ∀ pq : String × String, distance ops sm pq.1 pq.2 = distance ops sm' pq.1 pq.2 :=
    fun pq => distance_perm' ops h pq.1 pq.2
  simp only [this]

theorem coverageOf_perm' (ops : FloatOps F) {sm sm' : Setmap} (h : sm.Perm sm') (ps : List String) :
    coverageOf ops sm ps = coverageOf ops sm' ps := by
  unfold coverageOf; rw [total_perm h, usedBy_perm h]

theorem averageCoverageOn_perm' (ops : FloatOps F) {sm sm' : Setmap} (h : sm.Perm sm') (order : List String) :
    averageCoverageOn ops sm order = averageCoverageOn ops sm' order := by
  unfold averageCoverageOn
  have : ∀ p : String, coverageOf ops sm [p] = coverageOf ops sm' [p] :=
    fun p => coverageOf_perm' ops h [p]
  simp only [this]

/-- when `add` *is* commutative and associative (exact arithmetic) the order of the platform
set does not matter either -/
theorem averageCoverageOn_order (ops : FloatOps F)
    (comm : ∀ a b, ops.add a b = ops.add b a) (assoc : ∀ a b c, ops.add (ops.add a b) c = ops.add a (ops.add b c))
    (sm : Setmap) {o o' : List String} (h : o.Perm o') :
    averageCoverageOn ops sm o = averageCoverageOn ops sm o' := by
  unfold averageCoverageOn
  rw [h.length_eq]
  have hp := h.map (fun p => coverageOf ops sm [p])
  rw [hp.foldl_eq' (fun x _ y _ z => by rw [assoc, assoc, comm x y])]

/-- the code as it is: only the *set* of platforms handed to `average_coverage` matters -/
theorem averageCoverage_congr (ops : FloatOps F) {sm sm' : Setmap} (h : sm.Perm sm')
    {o o' : List String} (ho : ∀ x, x ∈ o ↔ x ∈ o') :
    averageCoverage ops sm o = averageCoverage ops sm' o' := by
  unfold averageCoverage
  rw [canon_congr ho, averageCoverageOn_perm' ops h]

/-! ## generic Python list comparison -/

section lex
variable {α : Type} [DecidableEq α] {le : α → α → Bool}

theorem lexLeG_total (total : ∀ a b, le a b || le b a) : ∀ a b : List α, lexLeG le a b || lexLeG le b a
  | [], _ => by simp [lexLeG]
  | _ :: _, [] => by simp [lexLeG]
  | a :: as, b :: bs => by
    simp only [lexLeG]
    by_cases h : a = b
    · subst h; simpa using lexLeG_total total as bs
    · have h' : ¬ b = a := fun e => h e.symm
      simpa [h, h'] using total a b

theorem lexLeG_antisymm (antisymm : ∀ a b, le a b → le b a → a = b) :
    ∀ a b : List α, lexLeG le a b → lexLeG le b a → a = b
  | [], [] => by simp
  | [], _ :: _ => by simp [lexLeG]
  | _ :: _, [] => by simp [lexLeG]
  | a :: as, b :: bs => by
    simp only [lexLeG]
    by_cases h : a = b
    · subst h
      simp only [if_true]
      intro h1 h2
      rw [lexLeG_antisymm antisymm as bs h1 h2]
    · have h' : ¬ b = a := fun e => h e.symm
      simp only [h, h', if_false]
      intro h1 h2
      exact absurd (antisymm a b h1 h2) h

theorem lexLeG_trans (trans : ∀ a b c, le a b → le b c → le a c)
    (antisymm : ∀ a b, le a b → le b a → a = b) :
    ∀ a b c : List α, lexLeG le a b → lexLeG le b c → lexLeG le a c
  | [], _, _ => by simp [lexLeG]
  | _ :: _, [], _ => by simp [lexLeG]
  | _ :: _, _ :: _, [] => by simp [lexLeG]
  | a :: as, b :: bs, c :: cs => by
    simp only [lexLeG]
    intro h1 h2
    by_cases hab : a = b
    · subst hab
      simp only [if_true] at h1
      by_cases hac : a = c
      · subst hac
        simp only [if_true] at h2 ⊢
        exact lexLeG_trans trans antisymm as bs cs h1 h2
      · simpa [hac] using h2
    · simp only [hab, if_false] at h1
      by_cases hbc : b = c
      · subst hbc
        simpa [hab] using h1
      · simp only [hbc, if_false] at h2
        by_cases hac : a = c
        · subst hac
          exact absurd (antisymm a b h1 h2) hab
        · simpa [hac] using trans a b c h1 h2

end lex

theorem strLe_trans (a b c : String) : strLe a b → strLe b c → strLe a c := by
  simp only [strLe, decide_eq_true_eq]; exact le_trans
theorem strLe_total (a b : String) : strLe a b || strLe b a := by
  simp only [strLe, Bool.or_eq_true, decide_eq_true_eq]; exact le_total a b
theorem strLe_antisymm (a b : String) : strLe a b → strLe b a → a = b := by
  simp only [strLe, decide_eq_true_eq]; exact le_antisymm

theorem pathLe_trans : ∀ a b c : PathParts, pathLe a b → pathLe b c → pathLe a c :=
  lexLeG_trans strLe_trans strLe_antisymm
theorem pathLe_total : ∀ a b : PathParts, pathLe a b || pathLe b a := lexLeG_total strLe_total
theorem pathLe_antisymm : ∀ a b : PathParts, pathLe a b → pathLe b a → a = b := lexLeG_antisymm strLe_antisymm
theorem pathGroupLe_trans : ∀ a b c : List PathParts, pathGroupLe a b → pathGroupLe b c → pathGroupLe a c :=
  lexLeG_trans pathLe_trans pathLe_antisymm
theorem pathGroupLe_total : ∀ a b : List PathParts, pathGroupLe a b || pathGroupLe b a :=
  lexLeG_total pathLe_total
theorem pathGroupLe_antisymm : ∀ a b : List PathParts, pathGroupLe a b → pathGroupLe b a → a = b :=
  lexLeG_antisymm pathLe_antisymm

end CbiVerif.Order
