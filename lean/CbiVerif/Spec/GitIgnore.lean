/-! # git's `.gitignore` pattern language (C09) — executable reference semantics

Written from the gitignore documentation (`gitignore(5)`, PATTERN FORMAT), with `git check-ignore`
as the arbiter where the text is silent (bracket expressions follow `wildmatch`):

* a blank line matches nothing; a line starting with `#` is a comment;
* trailing spaces are dropped unless escaped with `\`;
* a leading `!` negates the pattern (a matching path excluded by an earlier pattern is included again);
* `/` is the directory separator; a `/` at the beginning or in the middle of the pattern makes it relative
  to the directory of the ignore file (here: the code-base directory), otherwise the pattern is matched
  against the last component, at any depth;
* a `/` at the end makes the pattern match directories only;
* `*` matches anything except `/`, `?` one character except `/`, `[…]` one character of the set
  (ranges, `!`/`^` negation, `[:class:]`), never `/`;  `\` quotes the next character;
* a leading `**/` matches in all directories, a trailing `/**` matches everything inside, `/**/` matches
  zero or more directories; other consecutive asterisks are regular asterisks;
* the LAST matching pattern decides; a path is excluded when it or one of its parent directories is
  excluded ("it is not possible to re-include a file if a parent directory of that file is excluded").

Input: pattern lines, the components of a path relative to the directory of the ignore file, and whether
the path is a directory.  Characters are what git sees: **bytes** (a `String` enters through `enc`, its
UTF-8 encoding with every byte lifted to the character of the same code).  All functions are total:
structural recursion, one fuelled tokeniser.  Core Lean only. -/
namespace CbiVerif.GitIgnore

abbrev Chars := List Char

/-! ## strings as git sees them -/

/-- UTF-8 encoding of one character, every byte as the character with that code -/
def utf8 (c : Char) : Chars :=
  let n := c.toNat
  if n < 0x80 then [c]
  else if n < 0x800 then [Char.ofNat (0xC0 + n / 64), Char.ofNat (0x80 + n % 64)]
  else if n < 0x10000 then
    [Char.ofNat (0xE0 + n / 4096), Char.ofNat (0x80 + n / 64 % 64), Char.ofNat (0x80 + n % 64)]
  else
    [Char.ofNat (0xF0 + n / 262144), Char.ofNat (0x80 + n / 4096 % 64), Char.ofNat (0x80 + n / 64 % 64),
     Char.ofNat (0x80 + n % 64)]

def enc (s : String) : Chars := s.toList.flatMap utf8

/-! ## glob tokens -/

/-- the named classes of a bracket expression -/
inductive Cls
  | alnum | alpha | blank | cntrl | digit | graph | lower | print | punct | space | upper | xdigit
deriving Repr, DecidableEq

/-- one member of a bracket expression -/
inductive Item
  | ch (c : Char)
  | range (lo hi : Char)
  | cls (k : Cls)
deriving Repr, DecidableEq

inductive Tok
  /-- an ordinary or quoted character (also `/`) -/
  | lit (c : Char)
  /-- `?` -/
  | any
  /-- `*` (and every run of asterisks that is not a whole path component) -/
  | star
  /-- `**` as a whole component at the end of the pattern (`/**`; also before a quoted `\/`): any characters -/
  | dstar
  /-- `**/` as a whole component: nothing, or everything up to and including some `/` -/
  | dstarSlash
  /-- `[…]` -/
  | set (neg : Bool) (items : List Item)
deriving Repr, DecidableEq

def clsOfName (s : Chars) : Option Cls :=
  if s = "alnum".toList then some .alnum else if s = "alpha".toList then some .alpha
  else if s = "blank".toList then some .blank else if s = "cntrl".toList then some .cntrl
  else if s = "digit".toList then some .digit else if s = "graph".toList then some .graph
  else if s = "lower".toList then some .lower else if s = "print".toList then some .print
  else if s = "punct".toList then some .punct else if s = "space".toList then some .space
  else if s = "upper".toList then some .upper else if s = "xdigit".toList then some .xdigit
  else none

/-- the C-locale character classes (ASCII only; bytes above 127 are in no class) -/
def clsMatch (c : Char) : Cls → Bool
  | .alnum => c.isAlphanum
  | .alpha => c.isAlpha
  | .blank => c == ' ' || c == '\t'
  | .cntrl => c.toNat < 32 || c.toNat == 127
  | .digit => c.isDigit
  | .graph => decide (33 ≤ c.toNat) && decide (c.toNat ≤ 126)
  | .lower => c.isLower
  | .print => decide (32 ≤ c.toNat) && decide (c.toNat ≤ 126)
  | .punct => decide (33 ≤ c.toNat) && decide (c.toNat ≤ 126) && !c.isAlphanum
  | .space => c == ' ' || c == '\t' || c == '\n' || c == '\r' || c.toNat == 11 || c.toNat == 12
  | .upper => c.isUpper
  | .xdigit => c.isDigit || (decide ('a' ≤ c) && decide (c ≤ 'f')) || (decide ('A' ≤ c) && decide (c ≤ 'F'))

def itemMatch (c : Char) : Item → Bool
  | .ch d => c == d
  | .range lo hi => decide (lo.toNat ≤ c.toNat) && decide (c.toNat ≤ hi.toNat)
  | .cls k => clsMatch c k

/-! ## tokeniser -/

/-- the characters with a meaning of their own in a glob -/
def isSpecial (c : Char) : Bool := c == '*' || c == '?' || c == '[' || c == '\\'

/-- split at the first `]`: (text before it, text after it) -/
def untilClose : Chars → Option (Chars × Chars)
  | [] => none
  | c :: r => if c == ']' then some ([], r) else (untilClose r).map fun (a, b) => (c :: a, b)

/-- the members of a bracket expression.  `cs` starts at a member (the first member may be `]`); the result is
the member list and the text after the closing `]`; `none` = the expression is not closed or names an unknown
class (such a pattern matches nothing).  `prev` is the preceding plain member (a `-` after it starts a range). -/
def setItems : Nat → Option Char → Chars → Option (List Item × Chars)
  | 0, _, _ => none
  | n + 1, prev, cs =>
    -- `one`: the member(s) read now, the new `prev`, and the text after them
    let one : Option (List Item × Option Char × Chars) :=
      match cs with
      | [] => none
      | '\\' :: c :: r => some ([.ch c], some c, r)
      | '\\' :: [] => none
      | '-' :: r =>
        (match prev, r with
         | some lo, hi :: r' =>
           if hi == ']' then some ([.ch '-'], some '-', r)
           else if hi == '\\' then
             (match r' with
              | h :: r'' => some ([.range lo h], none, r'')
              | [] => none)
           else some ([.range lo hi], none, r')
         | _, _ => some ([.ch '-'], some '-', r))
      | '[' :: ':' :: r =>
        (match untilClose r with
         | none => none
         | some (nm, r') =>
           if nm.getLast? = some ':' then
             (match clsOfName nm.dropLast with
              | some k => some ([.cls k], none, r')
              | none => none)
           else some ([.ch '['], some '[', ':' :: r))
      | c :: r => some ([.ch c], some c, r)
    match one with
    | none => none
    | some (its, prev', rest) =>
      match rest with
      | ']' :: after => some (its, after)
      | _ => (setItems n prev' rest).map fun (more, after) => (its ++ more, after)

/-- length of the run of `*` at the head -/
def dropStars : Chars → Chars
  | '*' :: r => dropStars r
  | r => r

/-- tokens of a glob.  `bound` = the previous character of the pattern is `/` or there is none
(a run of two or more asterisks is special only as a whole component). -/
def tokAux : Nat → Bool → Chars → Option (List Tok)
  | 0, _, _ => none
  | _ + 1, _, [] => some []
  | n + 1, bound, c :: r =>
    if c == '*' then
      match r with
      | '*' :: r1 =>
        let r2 := dropStars r1
        if bound then
          match r2 with
          | [] => some [.dstar]
          | '/' :: r3 => (tokAux n true r3).map (Tok.dstarSlash :: ·)
          | '\\' :: '/' :: _ => (tokAux n false r2).map (Tok.dstar :: ·)
          | _ => (tokAux n false r2).map (Tok.star :: ·)
        else (tokAux n false r2).map (Tok.star :: ·)
      | _ => (tokAux n false r).map (Tok.star :: ·)
    else if c == '?' then (tokAux n false r).map (Tok.any :: ·)
    else if c == '\\' then
      match r with
      | [] => none     -- a trailing backslash: matches nothing
      | d :: r' => (tokAux n (d == '/') r').map (Tok.lit d :: ·)
    else if c == '[' then
      let (neg, r') := match r with
        | '!' :: r' => (true, r')
        | '^' :: r' => (true, r')
        | _ => (false, r)
      match setItems (r'.length + 1) none r' with
      | none => none
      | some (items, after) => (tokAux n false after).map (Tok.set neg items :: ·)
    else (tokAux n (c == '/') r).map (Tok.lit c :: ·)

def tokenize (cs : Chars) : Option (List Tok) := tokAux (cs.length + 1) true cs

/-! ## matcher -/

/-- `*`: `f` holds here, or after skipping one character that is not `/` -/
def starLoop (f : Chars → Bool) : Chars → Bool
  | [] => f []
  | c :: t => f (c :: t) || (c != '/' && starLoop f t)

/-- `**`: `f` holds here or after skipping any characters -/
def anyLoop (f : Chars → Bool) : Chars → Bool
  | [] => f []
  | c :: t => f (c :: t) || anyLoop f t

/-- does the token list match the whole text? -/
def wm : List Tok → Chars → Bool
  | [], t => t.isEmpty
  | .lit c :: p, t => match t with
    | [] => false
    | d :: t' => c == d && wm p t'
  | .any :: p, t => match t with
    | [] => false
    | d :: t' => d != '/' && wm p t'
  | .set neg items :: p, t => match t with
    | [] => false
    | d :: t' => d != '/' && (items.any (itemMatch d) != neg) && wm p t'
  | .star :: p, t => starLoop (wm p) t
  | .dstar :: p, t => anyLoop (wm p) t
  | .dstarSlash :: p, t =>
    wm p t || anyLoop (fun s => match s with
      | [] => false
      | c :: s' => c == '/' && wm p s') t

/-! ## pattern lines -/

structure Pat where
  /-- `!pattern` -/
  neg : Bool
  /-- `pattern/` -/
  dirOnly : Bool
  /-- the pattern has a `/` at the beginning or in the middle: it is matched against the whole relative path -/
  anchored : Bool
  /-- `none`: a malformed glob (unclosed `[`, unknown class, trailing `\`) — matches nothing -/
  toks : Option (List Tok)
deriving Repr, DecidableEq

/-- drop trailing spaces that are not quoted; `\` quotes the next character -/
def trimAux : Chars → Chars → Chars → Chars
  -- `done` = reversed text up to and including the last non-space, `sp` = the pending run of spaces
  | done, _, [] => done.reverse
  | done, sp, c :: r =>
    if c == ' ' then trimAux done (' ' :: sp) r
    else if c == '\\' then
      match r with
      | [] => ('\\' :: (sp ++ done)).reverse
      | d :: r' => trimAux (d :: '\\' :: (sp ++ done)) [] r'
    else trimAux (c :: (sp ++ done)) [] r

def trimTrailing (l : Chars) : Chars := trimAux [] [] l

/-- `!pattern` -/
def stripNeg (t : Chars) : Bool × Chars := if t.head? = some '!' then (true, t.tail) else (false, t)

/-- `pattern/` (one trailing slash is a flag, not part of the glob) -/
def stripDir (b : Chars) : Bool × Chars := if b.getLast? = some '/' then (true, b.dropLast) else (false, b)

/-- the glob of an anchored pattern: one leading `/` only anchors -/
def stripLead (b : Chars) : Chars := if b.head? = some '/' then b.tail else b

/-- one line of an ignore file; `none` for blank lines and comments -/
def parseLine (l : Chars) : Option Pat :=
  if l.isEmpty || l.head? == some '#' then none
  else
    let nb := stripNeg (trimTrailing l)
    let db := stripDir nb.2
    let anchored := db.2.contains '/'
    some { neg := nb.1, dirOnly := db.1, anchored := anchored,
           toks := tokenize (if anchored then stripLead db.2 else db.2) }

/-! ## deciding a path -/

abbrev Comps := List Chars

/-- the relative path as text -/
def joinPath : Comps → Chars
  | [] => []
  | [c] => c
  | c :: r => c ++ '/' :: joinPath r

/-- does ONE pattern match the path `comps` (a directory iff `isDir`)? -/
def matchPat (p : Pat) (comps : Comps) (isDir : Bool) : Bool :=
  (!p.dirOnly || isDir) &&
  match p.toks with
  | none => false
  | some ts => if p.anchored then wm ts (joinPath comps) else wm ts (comps.getLast?.getD [])

/-- the last matching pattern decides: `some true` = excluded, `some false` = included again, `none` = no match -/
def lastMatch (ps : List Pat) (comps : Comps) (isDir : Bool) : Option Bool :=
  ps.foldl (fun acc p => if matchPat p comps isDir then some (!p.neg) else acc) none

def excludedAt (ps : List Pat) (comps : Comps) (isDir : Bool) : Bool := lastMatch ps comps isDir == some true

/-- walk down from the directory of the ignore file: the first excluded directory excludes everything below it;
otherwise the path itself decides.  `pre` = the directories already passed. -/
def ignoredFrom (ps : List Pat) : Comps → Comps → Bool → Bool
  | _, [], _ => false
  | pre, [c], isDir => excludedAt ps (pre ++ [c]) isDir
  | pre, c :: rest, isDir => excludedAt ps (pre ++ [c]) true || ignoredFrom ps (pre ++ [c]) rest isDir

def ignored (ps : List Pat) (comps : Comps) (isDir : Bool) : Bool := ignoredFrom ps [] comps isDir

/-- **the reference**: is the path ignored under the given ignore-file lines? -/
def ignoredLines (lines : List Chars) (comps : Comps) (isDir : Bool) : Bool :=
  ignored (lines.filterMap parseLine) comps isDir

/-- the same on strings (UTF-8 bytes) -/
def ignoredStr (lines : List String) (comps : List String) (isDir : Bool) : Bool :=
  ignoredLines (lines.map enc) (comps.map enc) isDir

end CbiVerif.GitIgnore
