"""C05 adapters: run the real `c_file_source` / `FileParser.parse_file` on a text and
canonicalise what the property observes (also used by the worker processes)."""
from __future__ import annotations

import io
import os

from harness import core

_mods = {}


def mods():
    if not _mods:
        core.import_codebasin()
        from codebasin import file_parser, file_source, preprocessor

        _mods.update(fs=file_source, fp=file_parser, pp=preprocessor)
    return _mods


def exc_name(e: BaseException) -> str:
    s = str(e)
    if isinstance(e, RuntimeError):
        if "no newline" in s:
            return "RuntimeError:final-backslash"
        if "top level" in s:
            return "RuntimeError:not-top-level"
        if "Inconsistent" in s:
            return "RuntimeError:inconsistent"
        return "RuntimeError:" + s[:40]
    if type(e).__name__ == "ParseError" and "Not a directive" in s:
        return "ParseError:not-a-directive"
    return type(e).__name__ + ":" + s[:40]


def impl_source(text: str):
    """c_file_source on a StringIO (no newline translation): logical lines as yielded."""
    fs = mods()["fs"]
    # how parse_file classifies a yielded line (None if the implementation has no such helper any more:
    # the node list of parse_file is then the only observation of the directive test)
    is_dir = getattr(mods()["fp"].FileParser, "is_directive", None)
    src = fs.c_file_source(io.StringIO(text, newline=""))
    lines = []
    try:
        while True:
            ll = next(src)
            s, e = ll.phys_interval()
            cat, flushed = ll.category, ll.flushed_line
            lines.append([list(ll.lines), flushed, cat, s, e])
            if is_dir is not None:
                ll.category, ll.flushed_line = cat, flushed
                lines[-1].append(bool(is_dir(ll)))
            else:
                lines[-1].append(None)
            if ll.local_sloc != len(ll.lines):
                return {"exc": "local_sloc != len(lines)"}
    except StopIteration as stop:
        total, phys = stop.value
        return {"lines": lines, "total": total, "phys": phys, "counted": [n for l in lines for n in l[0]]}
    except Exception as e:  # noqa
        return {"exc": exc_name(e)}


class _FakeOpen:
    """stands in for `open` inside codebasin.file_parser: universal-newline text stream of `text`"""

    def __init__(self, text):
        self.text = text

    def __call__(self, filename, *a, **k):
        return io.StringIO(self.text, newline=None)


def _walk_nodes(tree):
    pp = mods()["pp"]
    out = []
    for n in tree.walk():
        if isinstance(n, pp.FileNode):
            continue
        out.append([isinstance(n, pp.DirectiveNode), list(n.lines), n.num_lines])
    return out


def impl_parse(text: str, path: str = "/nonexistent/c05.c"):
    """FileParser(path).parse_file() with file_parser's `open` replaced by an in-memory stream."""
    fp = mods()["fp"]
    fp.open = _FakeOpen(text)
    try:
        tree = fp.FileParser(path).parse_file()
        return {"nodes": _walk_nodes(tree), "total_sloc": tree.root.total_sloc}
    except Exception as e:  # noqa
        return {"exc": exc_name(e)}
    finally:
        del fp.open


def impl_parse_file(text: str, d) -> dict:
    """the same through a real file (bytes written verbatim)"""
    fp = mods()["fp"]
    p = os.path.join(str(d), "c05_real.c")
    with open(p, "w", newline="") as f:
        f.write(text)
    try:
        tree = fp.FileParser(p).parse_file()
        return {"nodes": _walk_nodes(tree), "total_sloc": tree.root.total_sloc}
    except Exception as e:  # noqa
        return {"exc": exc_name(e)}
