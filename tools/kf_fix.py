#!/venv/bin/python
"""kf_fix.py PROP ID COMMIT : turn a known finding into a fixed one (suppresses nothing any more)."""
import json, sys
prop, fid, commit = sys.argv[1:4]
kf = json.load(open("/verif/known_findings.json"))
for f in kf["findings"]:
    if f["property"] == prop and f["id"] == fid and f["status"] == "known":
        f["status"] = "fixed"; f["commit"] = commit
        f["what_failed"] = f.pop("what_fails", f.get("what_failed", ""))
        f["line"] = f"fixed: property={prop} {commit} {f['what_failed']}"
        print("fixed", prop, fid)
json.dump(kf, open("/verif/known_findings.json", "w"), indent=1)
