import Lean.Data.Json
import CbiVerif.Model.Order
/-! driver ops for C14: the definitions of `CbiVerif/Model/Order.lean` executed on concrete
enumeration orders (floats instantiated by exact rationals, NaN = null). -/
open Lean
namespace CbiVerif.Drv.Order
open CbiVerif.Order

/-- exact rational instance of the law-free float operations; `none` = NaN -/
def ratOps : FloatOps (Option Rat) :=
  { ofNat := fun n => some (n : Rat)
    add := fun a b => match a, b with | some x, some y => some (x + y) | _, _ => none
    div := fun a b => match a, b with | some x, some y => if y = 0 then none else some (x / y) | _, _ => none
    mul := fun a b => match a, b with | some x, some y => some (x * y) | _, _ => none
    zero := some 0
    hundred := some 100
    nan := none }

def ratJson (r : Option Rat) : Json := match r with
  | none => Json.null
  | some q => Json.str (toString q.num ++ "/" ++ toString q.den)

def strs (j : Json) : List String :=
  (j.getArr?.toOption.getD #[]).toList.map fun x => x.getStr?.toOption.getD ""
def nats (j : Json) : List Nat :=
  (j.getArr?.toOption.getD #[]).toList.map fun x => x.getNat?.toOption.getD 0
def arr (j : Json) (k : String) : List Json := ((j.getObjValAs? (Array Json) k).toOption.getD #[]).toList
def jstrs (l : List String) : Json := Json.arr (l.map Json.str).toArray

def parseContribs (j : Json) : List (PSet × Nat) :=
  (arr j "contribs").map fun e => match e with
    | Json.arr a => (strs a[0]!, (a[1]!).getNat?.toOption.getD 0)
    | _ => ([], 0)

def setmapJson (sm : Setmap) : Json :=
  Json.arr (sm.map fun e => Json.arr #[jstrs e.1, Json.num e.2]).toArray

/-- get_setmap + summary + metrics + distance matrix for one enumeration order -/
def handleAnalysis (j : Json) : Json :=
  let cs := parseContribs j
  let sm := getSetmap cs
  let plats := platformsSorted sm
  let avgOrder := match j.getObjVal? "avg_order" with
    | .ok v => strs v
    | _ => plats
  let rows := match summaryRows ratOps sm with
    | none => Json.null
    | some rs => Json.arr (rs.map fun r => Json.arr #[Json.str r.1, Json.num r.2.1, ratJson r.2.2]).toArray
  let m := metricLines ratOps sm avgOrder
  let dm := distanceMatrix ratOps sm
  Json.mkObj [
    ("setmap", setmapJson sm),
    ("rows", rows),
    ("plats", jstrs plats),
    ("divergence", ratJson m.divergence),
    ("coverage", ratJson m.coverage),
    ("avg", ratJson m.avgCoverage),
    ("total", Json.num m.totalSloc),
    ("matrix", Json.arr (dm.2.map fun row => Json.arr (row.map ratJson).toArray).toArray)]

/-- association sets after a list of visit events -/
def handleAssoc (j : Json) : Json :=
  let evs : List Visit := (arr j "events").map fun e => match e with
    | Json.arr a => ⟨(a[0]!).getStr?.toOption.getD "", (a[1]!).getStr?.toOption.getD "", (a[2]!).getNat?.toOption.getD 0⟩
    | _ => ⟨"", "", 0⟩
  let qs := (arr j "queries").map fun e => match e with
    | Json.arr a => ((a[0]!).getStr?.toOption.getD "", (a[1]!).getNat?.toOption.getD 0)
    | _ => ("", 0)
  Json.mkObj [("assoc", Json.arr (qs.map fun q => jstrs (assocOf evs q.1 q.2)).toArray)]

def rotate1 {α : Type} : List α → List α
  | [] => []
  | a :: l => l ++ [a]

/-- find_duplicates + the printed report for one enumeration order and one choice of `pop` order;
paths are split into components (that is how pathlib compares them); content ids are strings, the
digest is deliberately weak (length of the id mod 2) so that the confirmation loop has to split buckets -/
def handleDups (j : Json) : Json :=
  let files : List (PathParts × String) := (arr j "files").map fun e => match e with
    | Json.arr a => (((a[0]!).getStr?.toOption.getD "").splitOn "/", (a[1]!).getStr?.toOption.getD "")
    | _ => ([], "")
  let content : PathParts → String := fun p => (files.lookup p).getD ""
  let pick : List PathParts → List PathParts := match (j.getObjValAs? String "pick").toOption.getD "id" with
    | "rev" => List.reverse
    | "rot" => rotate1
    | _ => id
  let gs := findDuplicates pick content (fun c => c.length % 2) (files.map (·.1))
  let show_ := fun (g : List PathParts) => jstrs (g.map fun p => "/".intercalate p)
  Json.mkObj [
    ("groups", Json.arr (gs.map show_).toArray),
    ("printed", Json.arr ((printedDuplicates pathLe pathGroupLe gs).map show_).toArray)]

def handleCov (j : Json) : Json :=
  let recs : List CovRecord := (arr j "records").map fun e => match e with
    | Json.arr a => ⟨(a[0]!).getStr?.toOption.getD "", (a[1]!).getStr?.toOption.getD "", nats a[2]!, nats a[3]!⟩
    | _ => ⟨"", "", [], []⟩
  let out := covExport id recs
  Json.mkObj [("export", Json.arr (out.map fun r =>
    Json.arr #[Json.str r.file, Json.str r.id, Json.arr (r.used.map fun (n : Nat) => Json.num n).toArray,
      Json.arr (r.unused.map fun (n : Nat) => Json.num n).toArray]).toArray)]

def parseDefs (j : Json) : List Def :=
  (j.getArr?.toOption.getD #[]).toList.map fun e => match e with
    | Json.arr a => ((a[0]!).getStr?.toOption.getD "", (a[1]!).getStr?.toOption.getD "")
    | _ => ("", "")

/-- defines after `parse_args`: command-line defines, then those of every activated mode once, in the
order of first activation (`flags` = mode names in command-line order, `table` = [[name, defs]]) -/
def handleModes (j : Json) : Json :=
  let cmd := match j.getObjVal? "cmdline" with | .ok v => parseDefs v | _ => []
  let tbl : List (String × List Def) := (arr j "table").map fun e => match e with
    | Json.arr a => ((a[0]!).getStr?.toOption.getD "", parseDefs a[1]!)
    | _ => ("", [])
  let table : String → List Def := fun m => (tbl.lookup m).getD []
  let flags := match j.getObjVal? "flags" with | .ok v => strs v | _ => []
  let ds := modeDefines cmd table flags
  let names := match j.getObjVal? "names" with | .ok v => strs v | _ => []
  Json.mkObj [
    ("defines", Json.arr (ds.map fun d => Json.arr #[Json.str d.1, Json.str d.2]).toArray),
    ("defined", Json.arr (names.map fun n => match definedAs ds n with
      | none => Json.null | some b => Json.str b).toArray),
    ("consistent", Json.bool (consistentB ((firstOcc flags).flatMap table)))]

def handlers : List (String × (Json → Json)) :=
  [("order_analysis", handleAnalysis), ("order_assoc", handleAssoc), ("order_dups", handleDups),
   ("order_cov", handleCov), ("order_modes", handleModes)]

end CbiVerif.Drv.Order
