#!/venv/bin/python
"""Writes MANIFEST.json from the table below (single source of truth for the interface)."""
import json
from pathlib import Path

V = Path(__file__).resolve().parents[1]
ALL = [f"C{i:02d}" for i in range(1, 19)]

CHECKS = {p.stem: json.loads(p.read_text()) for p in sorted((V / "manifest.d").glob("C*.json"))}

NOT_YET = "check not built yet in this snapshot (planned: Lean 4 model + theorems + correspondence, see DESIGN.md section 5)"


def main():
    checks = []
    for pid in ALL:
        if pid not in CHECKS:
            continue
        c = CHECKS[pid]
        checks.append({
            "property_id": pid,
            "quick_cmd": f"./check {pid} quick",
            "thorough_cmd": f"./check {pid} thorough",
            "evidence_file": f"evidence/{pid}.json",
            "replay_cmd_template": f"./check {pid} --replay {{path}}",
            "engine": "lean4-cbiverif",
            "level_claimed": {"category": "proof", "text": c["text"], "design_ref": "DESIGN.md section " + c["design"]},
            "level_note": c["note"],
            "technique": c["technique"],
        })
    m = {
        "version": 1,
        "setup_cmd": "./setup.sh",
        "hooks": {
            "guard": "CBI_VERIF",
            "enable": "no source hooks are needed: all observation goes through public call sites, the codebasin logger and CLI output",
            "baseline_off_cmd": "cd /repo && /venv/bin/python -m pytest -ra -q -p no:cacheprovider --timeout=900 --continue-on-collection-errors",
            "source_commits": [],
            "add_only": True,
        },
        "engines": [{
            "name": "lean4-cbiverif",
            "path": "lean/",
            "serves_properties": [p for p in ALL if p in CHECKS],
            "kind_free_text": "Lean 4.33 lake project (models, specs, property theorems, native JSON-lines driver) + Python harness "
                              "(harness/) that regenerates tables from /repo, rebuilds, audits axioms and runs the correspondence check",
        }],
        "checks": checks,
        "not_applicable": [{"property_id": p, "reason": NOT_YET} for p in ALL if p not in CHECKS],
        "notes": "fix: commits in /repo are listed in known_findings.json (status fixed). See DESIGN.md.",
    }
    (V / "MANIFEST.json").write_text(json.dumps(m, indent=1) + "\n")
    import jsonschema
    jsonschema.validate(m, json.loads(Path("/root/.vp/MANIFEST.schema.json").read_text()))
    print("MANIFEST.json written:", len(checks), "checks")


if __name__ == "__main__":
    main()
