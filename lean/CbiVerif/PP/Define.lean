import CbiVerif.PP.Expand
/-! DirectiveParser.macro_definition / define, macro_from_definition_string -/
namespace CbiVerif.PP

/-- __arg(): optional identifier followed by optional `...`; returns (name, rest) -/
def parseArg (ts : List Tok) : Option (String × List Tok) :=
  let (nm, ts1) := match ts with
    | t :: r => if t.kind == TKind.ident then (some t.text, r) else (none, ts)
    | [] => (none, ts)
  let isDot (t : Tok) : Bool := t.kind == TKind.punct && t.text == "."
  match ts1 with
  | a :: b :: c :: r =>
    if isDot a && isDot b && isDot c then some ((nm.getD "") ++ "...", r)
    else nm.map (fun n => (n, ts1))
  | _ => nm.map (fun n => (n, ts1))

/-- __arg_list(): returns (args, rest) -/
def parseArgList (ts : List Tok) : List String × List Tok :=
  match parseArg ts with
  | none => ([], ts)
  | some (a, r) =>
    if a.endsWith "..." then ([a], r)
    else
      let rec go (fuel : Nat) (acc : List String) (ts : List Tok) : List String × List Tok :=
        match fuel with
        | 0 => (acc, ts)
        | fuel + 1 =>
          match ts with
          | t :: r =>
            if t.kind == .punct && t.text == "," then
              match parseArg r with
              | none => (acc, r)
              | some (a, r2) => if a.endsWith "..." then (acc ++ [a], r2) else go fuel (acc ++ [a]) r2
            else (acc, ts)
          | [] => (acc, ts)
      go (r.length + 1) [a] r

/-- macro_definition(): (name, args?, rest) -/
def macroDefinition (ts : List Tok) : Option (String × Option (List String) × List Tok) :=
  match ts with
  | t :: r =>
    if t.kind != .ident then none
    else
      match r with
      | p :: r2 =>
        if p.kind == .punct && p.text == "(" && !p.pw then
          let (args, r3) := parseArgList r2
          match r3 with
          | q :: r4 => if q.kind == .punct && q.text == ")" then some (t.text, some args, r4) else some (t.text, none, r)
          | [] => some (t.text, none, r)
        else some (t.text, none, r)
      | [] => some (t.text, none, r)
  | [] => none

/-- `#define` line (tokens after `#`): returns the macro -/
def defineFromLine (line : String) : Except Err Macro :=
  match tokenize line with
  | h :: d :: rest =>
    if h.text == "#" && d.kind == .ident && d.text == "define" then
      match macroDefinition rest with
      | some (n, args, body) => makeMacro n args body
      | none => .error (.parse "Invalid define")
    else .error (.parse "not a define")
  | _ => .error (.parse "not a define")

/-- macro_from_definition_string -/
def macroFromDefinitionString (s : String) : Except Err Macro :=
  match macroDefinition (tokenize s) with
  | none => .error (.parse "Expected identifier")
  | some (n, args, rest) =>
    match rest with
    | [] => makeMacro n args [⟨.num, "1", false, true⟩]
    | e :: body => if e.kind == .op && e.text == "=" then makeMacro n args body else .error (.parse "Expected =")

end CbiVerif.PP
