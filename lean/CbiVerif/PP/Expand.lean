import CbiVerif.PP.Macro
/-! Macro table of a platform and the result type of an expansion as the end-to-end models see it.

The expander itself is `MX.cbiExpand` (`Model/MacroExpand.lean`, total, the model the C03 theorems are about); the
end-to-end models call it through `PP.runExpandT` (`Model/ExpandPP.lean`).  The design-phase port that used to live here
(`partial def expandLoop/collectArgs/expandCall`, `runExpand`) is now `PP/ExpandOld.lean` (`PP.Old.runExpand`) and is only
used by the three-way cross-check of driver op `c03`. -/
namespace CbiVerif.PP

abbrev Table := List (String × Macro)
def Table.get (t : Table) (n : String) : Option Macro := (t.find? (·.1 == n)).map (·.2)

/-- what an expansion yields: tokens, a Python exception, or a signal (the total model: `"ModelOutOfFuel"`) -/
inductive XResult | ok (ts : List Tok) | error (e : Err) | sig (s : String)
deriving Repr

end CbiVerif.PP
