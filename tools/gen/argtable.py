"""Translator plug-in (C11): the fixed argparse option table of
`codebasin.config.ArgumentParser.parse_args` -> `Generated/ArgTable.lean`.

Read with Python's `ast` from the working tree (nothing is imported or executed):

* every `parser.add_argument(<literal flags>, <literal keywords>)` call of the
  function, in source order (the call inside the per-compiler loop has starred /
  `**` arguments and is not part of the *fixed* table): flags, dest, action, nargs, const;
  `action=<ClassName>` is resolved against the `argparse.Action` subclasses of config.py
  (CUSTOM_ACTIONS): `_UndefineAction` -> `undefine`, and the character class of the
  `re.split(r"[...]", <definition>, 1)[0]` call in its `__call__` (the characters that end
  the macro name of a `-D` value) is emitted as `undefineStops`;
* the keyword arguments of the `argparse.ArgumentParser(...)` constructor
  (`add_help`, `exit_on_error`, `allow_abbrev`, `prefix_chars`, `fromfile_prefix_chars`);
* which parse method is called on the parser (`parse_known_args` / `parse_args` / ...);
* from which namespace attributes the three list arguments of
  `PreprocessorConfiguration(defines, include_paths, include_files, ...)` are assembled
  (e.g. `args.include_paths + args.system_include_paths` -> ["include_paths", "system_include_paths"]);
* how `CompileCommand.arguments` splits the `command` string (function name and the
  `posix` / `comments` keywords of the `shlex.split` call).

All strings are emitted as `List Char` literals so that the Lean proofs never have to
compute with `String`.
"""
from __future__ import annotations

import ast

NAMESPACE = "CbiVerif.Gen.ArgTable"


def chars(s: str) -> str:
    def one(ch):
        if ch == "'":
            return "'\\''"
        if ch == "\\":
            return "'\\\\'"
        if ch == "\n":
            return "'\\n'"
        if ch == "\t":
            return "'\\t'"
        if ord(ch) < 32 or ord(ch) > 126:
            return "'\\u{%x}'" % ord(ch)
        return "'" + ch + "'"

    return "[" + ", ".join(one(c) for c in s) + "]"


ACTIONS = {
    "store": "store", "append": "append", "store_true": "storeTrue", "store_false": "storeFalse",
    "store_const": "storeConst", "append_const": "appendConst", "count": "count", "extend": "extend",
}
# argparse.Action subclasses of config.py that may be named in the fixed table -> action kind of the model
CUSTOM_ACTIONS = {"_UndefineAction": "undefine"}


def undefine_stops(h, mod, cls_name):
    """the characters that end a macro name in `_UndefineAction.__call__`: the one
    `re.split(r"[<literal characters>]", <name>, 1)[0]` call, compared with the option's value"""
    cls = h.find_class(mod, cls_name)
    if not any(ast.unparse(b) in ("argparse.Action", "Action") for b in cls.bases):
        raise h.Missing(f"{cls_name} is not an argparse.Action subclass")
    if [n.name for n in cls.body if isinstance(n, ast.FunctionDef)] != ["__call__"]:
        raise h.Missing(f"{cls_name}: methods other than __call__ (e.g. an __init__ changing nargs)")
    fn = h.find_func(cls, "__call__")
    calls = [n for n in ast.walk(fn) if isinstance(n, ast.Call) and ast.unparse(n.func) == "re.split"]
    if len(calls) != 1:
        raise h.Missing(f"expected exactly one re.split(...) call in {cls_name}.__call__")
    c = calls[0]
    if len(c.args) != 3 or c.keywords or not isinstance(c.args[0], ast.Constant) or not isinstance(c.args[0].value, str) \
            or not isinstance(c.args[2], ast.Constant) or c.args[2].value != 1:
        raise h.Missing(f"{cls_name}: re.split(<literal pattern>, <definition>, 1) expected")
    pat = c.args[0].value
    body = pat[1:-1]
    if len(pat) < 3 or pat[0] != "[" or pat[-1] != "]" or not body or any(ch in "\\^-[]" for ch in body):
        raise h.Missing(f"{cls_name}: the split pattern {pat!r} is not a plain character class")
    return body


def generate(repo, h):
    mod = h.parse("codebasin/config.py")
    cls = h.find_class(mod, "ArgumentParser")
    fn = h.find_func(cls, "parse_args")

    # ---- the constructor
    ctor = None
    for n in ast.walk(fn):
        if isinstance(n, ast.Assign) and isinstance(n.value, ast.Call) and ast.unparse(n.value.func) in (
            "argparse.ArgumentParser", "ArgumentParser"
        ):
            if any(isinstance(t, ast.Name) and t.id == "parser" for t in n.targets):
                ctor = n.value
    if ctor is None:
        raise h.Missing("parser = argparse.ArgumentParser(...) in ArgumentParser.parse_args")
    if ctor.args:
        raise h.Missing("positional arguments in the argparse.ArgumentParser(...) call")
    kw = {}
    for k in ctor.keywords:
        if k.arg is None:
            raise h.Missing("**kwargs in the argparse.ArgumentParser(...) call")
        kw[k.arg] = ast.literal_eval(k.value)
    unknown_kw = set(kw) - {"add_help", "exit_on_error", "allow_abbrev", "prefix_chars", "fromfile_prefix_chars",
                            "prog", "description", "usage", "epilog"}
    if unknown_kw:
        raise h.Missing(f"unmodelled ArgumentParser keywords {sorted(unknown_kw)}")
    add_help = bool(kw.get("add_help", True))
    exit_on_error = bool(kw.get("exit_on_error", True))
    allow_abbrev = bool(kw.get("allow_abbrev", True))
    prefix_chars = kw.get("prefix_chars", "-")
    fromfile = kw.get("fromfile_prefix_chars", None)

    # ---- the fixed add_argument table
    rows = []
    undef_stops = None
    calls = [
        n for n in ast.walk(fn)
        if isinstance(n, ast.Call) and isinstance(n.func, ast.Attribute) and n.func.attr == "add_argument"
        and isinstance(n.func.value, ast.Name) and n.func.value.id == "parser"
    ]
    calls.sort(key=lambda n: (n.lineno, n.col_offset))
    dynamic = 0
    for c in calls:
        if any(isinstance(a, ast.Starred) for a in c.args) or any(k.arg is None for k in c.keywords):
            dynamic += 1
            continue
        flags = [ast.literal_eval(a) for a in c.args]
        if not flags or not all(isinstance(f, str) for f in flags):
            raise h.Missing("add_argument flags are not string literals")
        k = {}
        for x in c.keywords:
            if x.arg == "action" and isinstance(x.value, ast.Name):
                if x.value.id not in CUSTOM_ACTIONS:
                    raise h.Missing(f"unmodelled custom action class {x.value.id}")
                k["action"] = ("custom", x.value.id)
            else:
                k[x.arg] = ast.literal_eval(x.value)
        extra = set(k) - {"dest", "action", "nargs", "const", "help", "default", "metavar", "required", "type", "choices"}
        if extra:
            raise h.Missing(f"unmodelled add_argument keywords {sorted(extra)}")
        if "type" in k or "choices" in k or "default" in k or "required" in k:
            raise h.Missing("add_argument keyword outside the modelled subset (type/choices/default/required)")
        action = k.get("action", "store")
        if isinstance(action, tuple):
            kind = CUSTOM_ACTIONS[action[1]]
            if kind == "undefine":
                stops = undefine_stops(h, mod, action[1])
                if undef_stops not in (None, stops):
                    raise h.Missing("two different undefine actions")
                undef_stops = stops
            action = "custom:" + kind
        elif not isinstance(action, str):
            raise h.Missing("non-literal action")
        nargs = k.get("nargs", None)
        if nargs is None:
            ln = ".none"
        elif nargs == "?":
            ln = ".opt"
        elif nargs == "*":
            ln = ".star"
        elif nargs == "+":
            ln = ".plus"
        elif isinstance(nargs, int) and nargs >= 0:
            ln = f"(.int {nargs})"
        else:
            ln = ".other"
        dest = k.get("dest", None)
        const = k.get("const", None)
        act = action[len("custom:"):] if action.startswith("custom:") else ACTIONS.get(action, "other")
        rows.append((flags, dest, act, ln, const if isinstance(const, str) else None))
    if dynamic != 1:
        raise h.Missing(f"expected exactly one per-compiler add_argument(*flags, **kwargs) call, found {dynamic}")

    # ---- the parse call
    parse_calls = [
        n.func.attr for n in ast.walk(fn)
        if isinstance(n, ast.Call) and isinstance(n.func, ast.Attribute) and isinstance(n.func.value, ast.Name)
        and n.func.value.id == "parser" and n.func.attr.startswith("parse_")
    ]
    if len(parse_calls) != 1:
        raise h.Missing(f"expected one parser.parse_*() call, found {parse_calls}")

    # ---- how the configuration lists are assembled
    def sources(e):
        """namespace attributes concatenated by `e` (args.x, args.x.copy(), list(args.x), a + b)"""
        if isinstance(e, ast.BinOp) and isinstance(e.op, ast.Add):
            return sources(e.left) + sources(e.right)
        if isinstance(e, ast.Call) and isinstance(e.func, ast.Attribute) and e.func.attr == "copy" and not e.args:
            return sources(e.func.value)
        if isinstance(e, ast.Call) and isinstance(e.func, ast.Name) and e.func.id == "list" and len(e.args) == 1:
            return sources(e.args[0])
        if isinstance(e, ast.Attribute) and isinstance(e.value, ast.Name) and e.value.id == "args":
            return [e.attr]
        raise h.Missing("unmodelled list expression in PreprocessorConfiguration(...): " + ast.unparse(e))

    pc = [n for n in ast.walk(fn) if isinstance(n, ast.Call) and ast.unparse(n.func) == "PreprocessorConfiguration"]
    if len(pc) != 1 or len(pc[0].args) < 3:
        raise h.Missing("PreprocessorConfiguration(defines, include_paths, include_files, ...) call")
    srcs = [sources(a) for a in pc[0].args[:3]]

    # ---- CompileCommand.arguments
    init = h.parse("codebasin/__init__.py")
    cc = h.find_class(init, "CompileCommand")
    argf = h.find_func(cc, "arguments")
    split_calls = [
        n for n in ast.walk(argf)
        if isinstance(n, ast.Call) and ast.unparse(n.func).endswith("split")
    ]
    if len(split_calls) != 1:
        raise h.Missing("expected exactly one *.split(...) call in CompileCommand.arguments")
    sc = split_calls[0]
    split_fn = ast.unparse(sc.func)
    skw = {k.arg: ast.literal_eval(k.value) for k in sc.keywords}
    pos = [a for a in sc.args]
    if len(pos) >= 2:
        skw.setdefault("comments", ast.literal_eval(pos[1]))
    if len(pos) >= 3:
        skw.setdefault("posix", ast.literal_eval(pos[2]))
    posix = bool(skw.get("posix", True))
    comments = bool(skw.get("comments", False))

    def opt_chars(s):
        return "none" if s is None else f"(some {chars(s)})"

    L = []
    L.append("/-! GENERATED by tools/gen/argtable.py from /repo's working tree (codebasin/config.py, codebasin/__init__.py) — do not edit. -/")
    L.append(f"namespace {NAMESPACE}\n")
    L.append("/-- `action=` of an `add_argument` call -/")
    L.append("inductive Action | store | append | storeTrue | storeFalse | storeConst | appendConst | count | extend | undefine | other")
    L.append("deriving DecidableEq, Repr, Inhabited")
    L.append("/-- `nargs=` of an `add_argument` call (`none` = keyword absent / `None`) -/")
    L.append("inductive Nargs | none | opt | star | plus | int (n : Nat) | other")
    L.append("deriving DecidableEq, Repr, Inhabited")
    L.append("/-- one literal `parser.add_argument(...)` call -/")
    L.append("structure Row where\n  flags : List (List Char)\n  dest : Option (List Char)\n  action : Action\n  nargs : Nargs\n  const : Option (List Char)\nderiving DecidableEq, Repr, Inhabited\n")
    L.append("/-- the fixed option table of `ArgumentParser.parse_args`, in source order -/")
    L.append("def rows : List Row := [")
    body = []
    for flags, dest, act, ln, const in rows:
        body.append(
            "  { flags := [" + ", ".join(chars(f) for f in flags) + f"], dest := {opt_chars(dest)}, action := .{act}, nargs := {ln}, const := {opt_chars(const)} }}"
        )
    L.append(",\n".join(body) + "]\n")
    L.append("/-- keywords of the `argparse.ArgumentParser(...)` constructor (argparse defaults when absent) -/")
    L.append(f"def addHelp : Bool := {h.lbool(add_help)}")
    L.append(f"def exitOnError : Bool := {h.lbool(exit_on_error)}")
    L.append(f"def allowAbbrev : Bool := {h.lbool(allow_abbrev)}")
    L.append(f"def prefixChars : List Char := {chars(prefix_chars)}")
    L.append(f"def fromfilePrefixChars : Option (List Char) := {opt_chars(fromfile)}")
    L.append("/-- `_UndefineAction` (`-U`): the characters that end the macro name of a `-D` value (`re.split(r\"[...]\", d, 1)[0]`); empty when the table has no such action -/")
    L.append(f"def undefineStops : List Char := {chars(undef_stops or '')}")
    L.append("/-- the method called on the parser -/")
    L.append(f"def parseCall : List Char := {chars(parse_calls[0])}")
    L.append("/-- namespace attributes concatenated into the configuration's defines / include_paths / include_files -/")
    for name, s in zip(("definesSrc", "includePathsSrc", "includeFilesSrc"), srcs):
        L.append(f"def {name} : List (List Char) := [" + ", ".join(chars(x) for x in s) + "]")
    L.append("/-- `CompileCommand.arguments`: the splitting function applied to `command` and its mode -/")
    L.append(f"def splitFn : List Char := {chars(split_fn)}")
    L.append(f"def splitPosix : Bool := {h.lbool(posix)}")
    L.append(f"def splitComments : Bool := {h.lbool(comments)}")
    L.append(f"\nend {NAMESPACE}")
    return {"ArgTable.lean": "\n".join(L) + "\n"}
