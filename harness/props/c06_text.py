"""C06, stream `txt` — the composed pipeline: SOURCE TEXT -> setmap / coverage.

Implementation (real code): files written to a scratch code base, `finder.find(root, CodeBase(root), configuration)` with a
  hand-made configuration ({platform: [{"file", "defines", "include_paths": [], "include_files": []}]}), then
  `state.get_setmap`, `report.summary`, `tree.walk()` / `association` per file, and the real
  `codebasin.coverage.__main__._compute` on a compilation database written for ONE of the platforms.
Model (Lean, driver op "c06text"): `C06C.analyse` = `CClean.parseFile` (C05) -> `PP.parseDirective` ->
  `PP.analyseNodes` (C01) per configuration entry -> platform set per node -> `SM.getSetmap`, `Summary.rows`,
  `Cov.compute` — the definitions `Props/C06Compose.lean` is about.
Spec (Lean, same op): `CLexRef` counted lines / nodes (C05 specification) and, per `-D` list, the ISO C
  conditional-inclusion reference machine (C01): every counted line with the set of platforms that do not skip it.
Oracle (this file): whenever the spec side is well defined (`wf`: every text inside C05's guard, every entry's unit
  accepted by the C01 reference) the implementation must not raise, its per-line attribution must be the spec's, the
  setmap must be the count of those lines per set, `Total SLOC` the number of counted lines, and the coverage export the
  used/unused split of the spec's attribution for that platform.

No `#include`, no `-include`, no symbolic links here: cross-file attribution is judged by the `inc` stream (c06_inc.py)
and by C04, links are covered by the analysis-result-level streams of c06.py.  A file may be written with CRLF or lone-CR
line endings (`eol`): model and spec take the universal-newline image `text`, the content hash is that of the bytes.
No `#include`, no `-include`, no symbolic links here: cross-file attribution is C04's layer, links are covered by the
analysis-result-level streams of c06.py.

Languages: the code base holds C-family files (C01 programs decorated with C05 material) AND free-form Fortran files
(`.f90/.F90`: programs of the C17 generator `c17.g_program` — continued statements, character literals, comment / sentinel /
blank lines, nested conditionals, `#define/#undef`), rarely a fixed-form `.f` file (a source file of the code base for which
`get_file_source` raises).  The model picks the front end by the extension as the code does (`C06L.parseSrcL`: C05 model
for the C family, C17 model `Fortran.fortranSource` / `group` / `pnodeOf` for Fortran); the spec side of a Fortran file is
C17's reference scanner (`Fortran.refText`: counted lines; `Fortran.refNodes`: their grouping) under C17's guard (inside WF,
no F-C17-1 line) and the same C01 reference machine per `-D` list.  The grouping of the counted lines of a Fortran file into
nodes is PROVED for the model (`C17.nodes_eq_ref`, `C06.fortran_groups_are_reference`, `C06.line_attribution_is_reference_mixed`)
under C17's guard and compared here as well.  The generator puts lone `&` lines in front of statements and, rarely, makes the
first text of such a statement a `#` on a continuation line (the shape of the repaired defect F-C17-2: before the repair the code
read that line as a preprocessor directive; `C17.F_C17_2_fixed`).
"""
from __future__ import annotations

import collections
import hashlib
import json
import os
import random
import time

from harness import core
from harness.props import c01 as C01
from harness.props import c17 as C17

PLATS = ["arm", "cpu", "fpga", "gpu"]          # sorted: a sub-list is the canonical form of a frozenset
DIRS = ["", "src", "src/util", "include", "lib/deep/er"]
DECOR = [
    ["// comment"], ["/* c */"], [""], ["int w; // t"], ["int k = 1 + \\", "  3;"], ["   "],
    ["int c1; /* starts here", "   goes on", "   ends */"], ["/* closed in front of code", "*/ int c2;"],
    ["int c3 = 1 + \\", "\\", "  2;"], ["int c4; /* a", "b */ int c5; /* c", "d */"],
    ['char *s = "/* no comment */ // none";'], ["char q = '\\'';  /* x */"], ["/* only", "a", "comment */"],
    ["int d1 = 4 / 2; // division"], ['char *t = "a\\', 'b";'], ["/**/"], ["int e1; /* a */ /* b */ int e2;"],
]


def gen_text(rng):
    """a conditional-inclusion program of the C01 generator, decorated with C05 material (comments, continuations, literals)"""
    names = C01.NAMES[: rng.choice([3, 4])]
    g = C01.Gen(rng, rng.randint(1, 5), rng.randint(6, 30), names, p_err=0.004)
    g.safe = rng.random() < 0.95
    lines = g.block(g.depth0)
    while g.budget > 8 and rng.random() < 0.5:
        lines += g.block(g.depth0)
    lines = lines[:50]
    if rng.random() < 0.04:
        lines = C01.malform(rng, lines)
    out = []
    for ln in lines:
        if rng.random() < 0.22:
            out += rng.choice(DECOR)
        if ln.startswith("#") and rng.random() < 0.08 and "//" not in ln and "/*" not in ln:
            # a directive continued over two physical lines / followed by a comment that runs on
            ln = rng.choice([ln + " \\\n", ln + " /* goes", ln + " // c"])
            if ln.endswith("\\\n"):
                out += [ln[:-1].rstrip("\n"), "  "]
                continue
            if ln.endswith("/* goes"):
                out += [ln, "on */"]
                continue
        out.append(ln)
    if rng.random() < 0.15:
        out += rng.choice(DECOR)
    text = "\n".join(out) + ("\n" if rng.random() < 0.9 else "")
    return text, names


F_PLAIN = ["x = 1\n! c\ny = 2\n", "! nothing\n", "", "\n\n", "call last()", "!$omp parallel\n\n!$omp end parallel\n",
           "s = 'it''s &\n   &fine' ! c\n"]


def gen_ftext(rng):
    """a free-form Fortran program of the C17 generator: statements continued over lines (also inside character literals), comment /
    sentinel / blank lines, nested #if/#elif/#else/#endif, #define/#undef; with `split` a continued statement is cut by directives
    (outside the WF of the C17 reference: model comparison only)"""
    text = C17.g_program(rng, depth=rng.randint(1, 3), size=rng.randint(3, 14), split=rng.choice([0.0, 0.0, 0.0, 0.0, 0.0, 0.15]))
    if rng.random() < 0.04:
        text = C17.mutate_text(rng, text)
    r = rng.random()
    if r < 0.16:
        text = lone_amp(rng, text, hash_head=r < 0.04)
    return text, list(C17.NAMES)


def lone_amp(rng, text, hash_head=False):
    """a statement that BEGINS with lines holding only `&` (F2018 6.3.2.4 forbids them, compilers warn, the C17 reference accepts
    them), put where a statement can start for sure: at the top of the text or right after a preprocessor directive line.
    hash_head: the first text of that statement is a `#` on a continuation line — the shape of the repaired defect F-C17-2"""
    lines = text.split("\n")
    spots = [0] + [i + 1 for i, ln in enumerate(lines[:-1]) if ln.lstrip().startswith("#")]
    at = rng.choice(spots)
    lead = [rng.choice(["&", "  &", "& ! c", "&  "])]
    if rng.random() < 0.4:
        lead.append(rng.choice(["", "  ! note", "& &", " &&"]))
    if hash_head:
        body = [rng.choice(["&", " & ", "  "]) + rng.choice(["#define " + rng.choice(C17.NAMES), "#undef " + rng.choice(C17.NAMES),
                                                                  "#3", "# foo"])]
        if rng.random() < 0.3:
            body[0] += " &"
            body.append("  & + 1")
    else:
        body = [rng.choice(["&", " & ", "  "]) + rng.choice(["la = 1", "lb = 'a#b' // &", "!$omp barrier", "lc = 2 ! #c"])]
        if body[0].endswith("&"):
            body.append(rng.choice(["  &'#'", "  & #x", "'c'"]))
    return "\n".join(lines[:at] + lead + body + lines[at:])


def gen_case(rng, fortran=True):
    nfiles = rng.choice([1, 1, 2, 2, 3, 4])
    files, names_all = [], set()
    # a third of the code bases is C only (the stream as it was), the others mix the two front ends
    p_fortran = rng.choice([0.0, 0.5, 0.5, 1.0])
    if not fortran:  # C-family files only (C14's textperm stream: its theorems are about the C instance `C06C.analyse`)
        p_fortran = 0.0
    for i in range(nfiles):
        kind = rng.random()
        if rng.random() < p_fortran:
            # `.f` is fixed-form Fortran: a source file of the code base for which `get_file_source` raises RuntimeError
            ext = "f" if rng.random() < 0.03 else rng.choice(["f90", "F90"])
            text, names = (rng.choice(F_PLAIN), []) if kind < 0.12 else gen_ftext(rng)
        else:
            ext = rng.choice(['c', 'h', 'cpp', 'hpp', 'cc'])
            if kind < 0.12:
                text, names = rng.choice(["int unused;\n// x\nint unused2;\n", "/* nothing */\n", "", "\n\n", "int last"]), []
            else:
                text, names = gen_text(rng)
        names_all.update(names)
        d = rng.choice(DIRS)
        files.append({"path": [x for x in d.split("/") if x] + [f"f{i}.{ext}"], "text": text})
    names = sorted(names_all) or ["A"]
    plats = []
    for name in PLATS[: rng.choice([0, 1, 1, 2, 2, 3, 4])]:
        entries = []
        for f in files:
            r = rng.random()
            for _ in range(0 if r < 0.3 else 1 if r < 0.9 else 2):
                # an empty replacement makes `#if X` unevaluable (gcc rejects it too): C01's subject, kept rare here
                defs = [d + "1" if d.endswith("=") and rng.random() < 0.9 else d for d in C01.gen_defs(rng, names)]
                entries.append({"file": f["path"], "defs": defs})
        rng.shuffle(entries)
        plats.append({"name": name, "entries": entries})
    cov = rng.choice(plats)["name"] if plats else None
    # line endings on disk (drawn last, so the texts / platforms of a seed are the ones drawn before this was added): the
    # model and the spec take `text` = the universal-newline image, the implementation reads the bytes written
    for f in files:
        r = rng.random()
        if r < 0.3:
            f["eol"] = "crlf" if r < 0.2 else "cr"
    return {"kind": "txt", "files": files, "plats": plats, "cov": cov}


def disk_bytes(f):
    """the bytes written for a file of the case: its text with the chosen line ending"""
    eol = {"lf": "\n", "crlf": "\r\n", "cr": "\r"}[f.get("eol", "lf")]
    return f["text"].replace("\n", eol).encode()


# --------------------------------------------------------------------------
def key_of(ps):
    return tuple(sorted(ps))


def run_impl(root, case):
    """the real analysis of the case: {'files': {path tuple: [[plats, num_lines, lines]]}, 'setmap': {key: n}, 'summary': str|None}
    or {'exc': class name}"""
    from codebasin import CodeBase, finder
    from codebasin.preprocessor import CodeNode
    from harness.props import c06 as C06

    for f in case["files"]:
        full = os.path.join(root, *f["path"])
        os.makedirs(os.path.dirname(full), exist_ok=True)
        with open(full, "wb") as fh:
            fh.write(disk_bytes(f))
    cfg = {p["name"]: [{"file": os.path.join(root, *e["file"]), "defines": list(e["defs"]), "include_paths": [], "include_files": []}
                       for e in p["entries"]] for p in case["plats"]}
    try:
        cb = CodeBase(root)
        st = finder.find(root, cb, cfg, summarize_only=False)
        files = {}
        for fn in cb:
            tree, m = st.get_tree(fn), st.get_map(fn)
            files[tuple(os.path.relpath(fn, root).split(os.sep))] = [
                [sorted(m[n]), int(n.num_lines), [int(x) for x in n.lines]] for n in tree.walk() if isinstance(n, CodeNode)]
        setmap = {key_of(k): int(c) for k, c in st.get_setmap(cb).items()}
        return {"files": files, "setmap": setmap, "summary": C06.impl_summary(st.get_setmap(cb))}
    except Exception as e:  # noqa
        return {"exc": type(e).__name__}


def run_coverage(root, outdir, case):
    """the real `_compute` for the platform case['cov'] -> {file: (used, unused, id)} or {'exc': name}"""
    from harness.props import c06 as C06

    plat = next(p for p in case["plats"] if p["name"] == case["cov"])
    db = [{"file": os.path.join(root, *e["file"]), "directory": root,
           "arguments": ["gcc"] + [f"-D{d}" for d in e["defs"]] + ["-c", os.path.join(root, *e["file"])]} for e in plat["entries"]]
    dbpath = os.path.join(outdir, "compile_commands.json")
    with open(dbpath, "w") as f:
        json.dump(db, f)
    try:
        cov = C06.impl_coverage(root, dbpath, os.path.join(outdir, "coverage.json"))
    except Exception as e:  # noqa
        return {"exc": type(e).__name__}
    return {"records": [[r["file"], r["used_lines"], r["unused_lines"], r["id"]] for r in cov]}


def request(case, only=None):
    plats = case["plats"]
    if only is not None:
        plats = [{"name": "cli", "entries": p["entries"]} for p in plats if p["name"] == only]
    return {"op": "c06text", "files": case["files"], "plats": plats}


def compare(case, impl, cov, rep, rep1, root=None):
    """-> (spec problems, model problems, info)"""
    spec_p, model_p = [], []
    model, spec = rep["model"], rep["spec"]
    wf = spec["wf"]
    # ---- model vs implementation
    if "exc" in impl or "exc" in model:
        if ("exc" in impl) != ("exc" in model):
            model_p.append(f"implementation {impl.get('exc', 'returns')} vs model {model.get('exc', 'returns')}")
        elif len(case["files"]) == 1 and not C01.err_matches(model["exc"], impl["exc"]):
            # with several files `finder.find` parses them in set (hash) order: WHICH file's exception surfaces is not
            # determined by the input, so the class is compared for single-file code bases only
            model_p.append(f"implementation raises {impl['exc']}, model {model['exc']}")
    else:
        m = model["ok"]
        mfiles = {tuple(f["path"]): f["nodes"] for f in m["files"]}
        if mfiles != impl["files"]:
            bad = next((p for p in impl["files"] if mfiles.get(p) != impl["files"][p]), None)
            model_p.append(f"node list of {'/'.join(bad or ())}: implementation {impl['files'].get(bad)} vs model {mfiles.get(bad)}")
        if {tuple(k): c for k, c in m["setmap"]} != impl["setmap"]:
            model_p.append(f"get_setmap {impl['setmap']} vs model {m['setmap']}")
    # ---- the two parser models must agree (C05 model + attach vs the literal port behind op c01)
    for f, sf in zip(case["files"], spec["files"]):
        if not sf["pp_agree"]:
            model_p.append(f"{'/'.join(f['path'])}: the C05 parser model and the C01 parse port disagree on the node list")
    # ---- property oracle
    if wf:
        if "exc" in impl:
            spec_p.append(f"finder.find raises {impl['exc']} on a code base every unit of which the reference accepts")
        else:
            want_cnt = collections.Counter()
            for f, sf in zip(case["files"], spec["files"]):
                p = tuple(f["path"])
                got = {}
                dup = False
                for ps, n, lines in impl["files"].get(p, []):
                    if n != len(lines):
                        spec_p.append(f"{'/'.join(p)}: node with num_lines={n} but lines={lines}")
                    for ln in lines:
                        dup = dup or ln in got
                        got[ln] = key_of(ps)
                want = {ln: tuple(k) for ln, k in sf["attr"]}
                want_cnt.update(want.values())
                if dup:
                    spec_p.append(f"{'/'.join(p)}: a line belongs to two nodes")
                groups = [lines for _, _, lines in impl["files"].get(p, [])]
                if sorted(got) == sf["counted"] and groups != [ls for _, ls in sf["nodes"]]:
                    # proved for the model: C05.nodes_of_ok (C family), C17.nodes_eq_ref / C06.fortran_groups_are_reference (Fortran)
                    spec_p.append(f"{'/'.join(p)}: the nodes hold the lines {groups} but the specification of {sf.get('lang', 'c')} groups "
                                  f"the counted lines as {[ls for _, ls in sf['nodes']]}")
                if sorted(got) != sf["counted"]:
                    spec_p.append(f"{'/'.join(p)}: lines of the nodes {sorted(got)} but the counted lines of the text are {sf['counted']}")
                elif got != want:
                    ln = next(x for x in want if got[x] != want[x])
                    spec_p.append(f"{'/'.join(p)}: line {ln} attributed to {{{', '.join(got[ln])}}} but the platforms whose preprocessor keeps it are {{{', '.join(want[ln])}}}")
            if {k: c for k, c in impl["setmap"].items() if c} != dict(want_cnt):
                spec_p.append(f"get_setmap {impl['setmap']} but the counted lines of the texts give {dict(want_cnt)}")
            if sum(impl["setmap"].values()) != spec["sloc"]:
                spec_p.append(f"sum of the setmap {sum(impl['setmap'].values())} but the texts have {spec['sloc']} counted lines")
            if impl["summary"] is not None:
                from harness.gen import codebase as G

                rows, total, _ = G.parse_summary(impl["summary"])
                if total is not None and total != spec["sloc"]:
                    spec_p.append(f"Total SLOC printed {total} but the texts have {spec['sloc']} counted lines")
                if total is not None and {key_of(k): c for k, (c, _) in rows.items()} != dict(want_cnt):
                    spec_p.append("summary rows are not the counts of the counted lines per platform set")
            elif spec["sloc"]:
                spec_p.append("summary raises ZeroDivisionError although the texts have counted lines")
    # ---- coverage of one platform through the real `_compute`
    if cov is not None and rep1 is not None:
        m1, s1 = rep1["model"], rep1["spec"]
        if "exc" in cov or "exc" in m1:
            if ("exc" in cov) != ("exc" in m1):
                model_p.append(f"coverage: implementation {cov.get('exc', 'returns')} vs model {m1.get('exc', 'returns')}")
        else:
            got = sorted((f, u, un) for f, u, un, _ in cov["records"])
            want = sorted(("/".join(r["path"]), r["used"], r["unused"]) for r in m1["ok"]["coverage"])
            if got != want:
                model_p.append(f"coverage records {got} vs model {want}")
        if s1["wf"]:
            if "exc" in cov:
                spec_p.append(f"coverage compute raises {cov['exc']} on a code base the reference accepts")
            else:
                recs = {f: (u, un, h) for f, u, un, h in cov["records"]}
                if len(recs) != len(cov["records"]) or sorted(recs) != sorted("/".join(f["path"]) for f in case["files"]):
                    spec_p.append(f"coverage lists {sorted(r[0] for r in cov['records'])}, the code base is {sorted('/'.join(f['path']) for f in case['files'])}")
                for f, sf in zip(case["files"], s1["files"]):
                    name = "/".join(f["path"])
                    if name not in recs:
                        continue
                    u, un, h = recs[name]
                    wu = [ln for ln, k in sf["attr"] if k]
                    wun = [ln for ln, k in sf["attr"] if not k]
                    if sorted(u) != wu or sorted(un) != wun:
                        spec_p.append(f"coverage of {name}: used {u} unused {un}; the platform's preprocessor keeps {wu} and skips {wun} of the counted lines {sf['counted']}")
                    if len(set(u) | set(un)) != len(u) + len(un):
                        spec_p.append(f"coverage of {name} lists a line twice")
                    if h != hashlib.sha512(disk_bytes(f)).hexdigest():
                        spec_p.append(f"content hash of {name} is not the SHA-512 of its bytes")
    return spec_p, model_p


def nontrivial_key(case, rep):
    """non-trivial: the spec side is defined, >= 2 platform sets (one non-empty, one empty or partial), and some file has both a
    conditional directive and a physical line that is not counted inside its extent (comment / continuation / blank)"""
    sp = rep["spec"]
    if not sp["wf"]:
        return None
    sets = set(tuple(k) for sf in sp["files"] for _, k in (sf["attr"] or []))
    rich = any(any(d for d, _ in sf["nodes"]) and sf["counted"] and len(sf["counted"]) < sf["counted"][-1] for sf in sp["files"])
    if len(sets) >= 2 and any(sets) and rich:
        return hashlib.sha1(json.dumps([case["files"], case["plats"]], sort_keys=True).encode()).hexdigest()
    return None


def evaluate(ctx, drv, case, record=True):
    with core.Scratch() as d, core.Scratch() as outdir:
        root = os.path.join(os.path.realpath(d), "cb")
        os.makedirs(root)
        impl = run_impl(root, case)
        cov = run_coverage(root, os.path.realpath(outdir), case) if case.get("cov") else None
    rep = rep1 = None
    if drv is not None:
        rep = drv.ask(request(case))
        rep1 = drv.ask(request(case, case["cov"])) if case.get("cov") else None
    if rep is None:
        return [], [], impl, cov, None, None
    spec_p, model_p = compare(case, impl, cov, rep, rep1)
    return spec_p, model_p, impl, cov, rep, rep1


def shrink(ctx, drv, case, budget=60):
    """greedy reduction of a violating case: drop files, platforms, entries, then lines — while the oracle still objects"""
    def bad(c):
        sp, _, *_ = evaluate(ctx, drv, c, record=False)
        return bool(sp)

    def variants(c):
        for i in range(len(c["files"])):
            if len(c["files"]) > 1:
                path = c["files"][i]["path"]
                yield dict(c, files=c["files"][:i] + c["files"][i + 1:],
                           plats=[dict(p, entries=[e for e in p["entries"] if e["file"] != path]) for p in c["plats"]])
        for i in range(len(c["plats"])):
            rest = c["plats"][:i] + c["plats"][i + 1:]
            yield dict(c, plats=rest, cov=(c["cov"] if any(p["name"] == c["cov"] for p in rest) else None))
        for i, p in enumerate(c["plats"]):
            for j in range(len(p["entries"])):
                yield dict(c, plats=c["plats"][:i] + [dict(p, entries=p["entries"][:j] + p["entries"][j + 1:])] + c["plats"][i + 1:])
        for i, f in enumerate(c["files"]):
            lines = f["text"].split("\n")
            for j in range(len(lines)):
                t = "\n".join(lines[:j] + lines[j + 1:])
                yield dict(c, files=c["files"][:i] + [dict(f, text=t)] + c["files"][i + 1:])

    t0 = time.time()
    changed = True
    while changed and time.time() - t0 < budget:
        changed = False
        for v in variants(case):
            if time.time() - t0 > budget:
                break
            try:
                if bad(v):
                    case, changed = v, True
                    break
            except Exception:  # noqa
                continue
    return case


def run_one(ctx, drv, case, origin):
    spec_p, model_p, impl, cov, rep, rep1 = evaluate(ctx, drv, case)
    case = dict(case, origin=origin)
    if spec_p:
        small = shrink(ctx, drv, case) if ctx.budget_scale <= 1 or not ctx.violations else case
        sp2 = evaluate(ctx, drv, small, record=False)[0] or spec_p
        ctx.violation("[txt] " + "; ".join(sp2[:3]), small)
    if model_p:
        ctx.corr_break("c06text", case, model_p[:3], "see replay")
    nplat = len(case["plats"])
    ctx.count(key=f"txt:files={len(case['files'])},platforms={nplat}", nontrivial_key=nontrivial_key(case, rep) if rep else None)
    if rep is not None:
        ctx.dist["txt:spec defined" if rep["spec"]["wf"] else "txt:outside the guards (model comparison only)"] += 1
        if "exc" in rep["model"]:
            ctx.dist["txt:analysis raises"] += 1
        langs = sorted(set(sf.get("lang", "c") for sf in rep["spec"]["files"]))
        ctx.dist["txt:languages=" + "+".join(langs)] += 1
        for sf in rep["spec"]["files"]:
            if sf.get("lang") == "fortran-free":
                ctx.dist["txt:fortran file inside the C17 guard" if sf["guard"] else "txt:fortran file outside the C17 guard"] += 1
    ctx.dist["txt:coverage computed" if cov is not None else "txt:no platform for coverage"] += 1
    for f in case["files"]:
        if f.get("eol"):
            ctx.dist["txt:file written with eol=" + f["eol"]] += 1
    if rep is not None and rep["spec"]["wf"] and nplat >= 2:
        ctx.sample({"kind": "txt", "files": [dict(f, text=f["text"][:300]) for f in case["files"][:2]], "plats": case["plats"][:2],
                    "setmap": rep["model"].get("ok", {}).get("setmap")}, cap=8)


def run_stream(ctx, drv, n, seconds=None):
    t0 = time.time()
    for i in range(n):
        if seconds is not None and time.time() - t0 > seconds:
            ctx.notes.append(f"txt stream stopped by its time box ({seconds}s) after {i} of {n} code bases")
            break
        seed = ctx.rng.randrange(1 << 30)
        run_one(ctx, drv, gen_case(random.Random(seed)), f"txt:{seed}")


def replay(ctx, drv, case):
    spec_p, model_p, impl, cov, rep, rep1 = evaluate(ctx, drv, case)
    if spec_p:
        ctx.violation("[txt] " + "; ".join(spec_p[:3]), case)
    if model_p:
        ctx.corr_break("c06text", case, model_p[:3], "see replay")
    return {"contradicts_property": spec_p, "differs_from_model": model_p,
            "implementation": {"analysis": ({"/".join(k): v for k, v in impl["files"].items()} if "files" in impl else impl),
                               "get_setmap": {"{" + ", ".join(k) + "}": c for k, c in impl.get("setmap", {}).items()},
                               "coverage": cov},
            "model": rep["model"] if rep else None,
            "spec": rep["spec"] if rep else None,
            "model/spec for the coverage platform": rep1}
