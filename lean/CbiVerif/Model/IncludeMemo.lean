import CbiVerif.Spec.IncludeSearch
/-! # Model of `Platform.find_include_file` (codebasin/platform.py) and of the two argparse
append lists that feed `Platform._include_paths` (codebasin/config.py).

The memo `found_incl` is a dictionary; the key the code uses now is
`(filename, None if is_system_include else this_path)`.  The model is generic in the key
function so that the proved statement and the refuted one (key = spelling only, the pinned
tree before fix D13) are instances of the same definition. -/
namespace CbiVerif.IncMemo
open CbiVerif.IncludeSearch

/-- one look-up: `find_include_file(name, dir, sys)` -/
structure Query where
  name : String
  dir : String      -- directory of the including file (`this_path`)
  sys : Bool        -- `<>` form
deriving DecidableEq, Repr

/-- the key of the code: `(filename, None if is_system_include else this_path)` -/
abbrev Key := String × Option String
def Query.key (q : Query) : Key := (q.name, if q.sys then none else some q.dir)

/-- the loop of `find_include_file` without the memo: `[this_path unless <>] + _include_paths`,
first `isfile` wins -/
def resolveM (E : Env) (paths : List String) (q : Query) : Option String :=
  resolveIn E ((if q.sys then [] else [q.dir]) ++ paths) q.name

/-- a memo keyed by `K` (Python dict; insertion order kept only for printing) -/
abbrev Memo (K : Type) := List (K × Option String)

def Memo.lookup {K : Type} [BEq K] (m : Memo K) (k : K) : Option (Option String) :=
  (m.find? (·.1 == k)).map (·.2)

/-- `find_include_file` with a memo keyed by `key q`:
`try: return found_incl[key] except KeyError: …; found_incl[key] = result` -/
def findBy {K : Type} [BEq K] (key : Query → K) (res : Query → Option String) (m : Memo K) (q : Query) :
    Option String × Memo K :=
  match m.lookup (key q) with
  | some r => (r, m)
  | none => let r := res q; (r, m ++ [(key q, r)])

/-- a whole history of look-ups through one memo -/
def runBy {K : Type} [BEq K] (key : Query → K) (res : Query → Option String) : Memo K → List Query → List (Option String)
  | _, [] => []
  | m, q :: qs => let r := findBy key res m q; r.1 :: runBy key res r.2 qs

/-- the memoised resolver of the code as it is now -/
def find (E : Env) (paths : List String) (m : Memo Key) (q : Query) : Option String × Memo Key :=
  findBy Query.key (resolveM E paths) m q

def run (E : Env) (paths : List String) (m : Memo Key) (qs : List Query) : List (Option String) :=
  runBy Query.key (resolveM E paths) m qs

/-! ## the two append lists of `ArgumentParser.parse_args`

`-I` has `dest="include_paths", action="append"`, `-isystem` has `dest="system_include_paths",
action="append"`; the list handed on is `args.include_paths + args.system_include_paths`. -/
structure Lists where
  includePaths : List String := []
  systemIncludePaths : List String := []
deriving Repr

def Lists.step (l : Lists) : Flag → Lists
  | .I d => { l with includePaths := l.includePaths ++ [d] }
  | .isystem d => { l with systemIncludePaths := l.systemIncludePaths ++ [d] }
  | .other _ => l

def collect (argv : List Flag) : Lists := argv.foldl Lists.step {}

/-- what `PreprocessorConfiguration.include_paths` receives -/
def handed (argv : List Flag) : List String :=
  let l := collect argv
  l.includePaths ++ l.systemIncludePaths

end CbiVerif.IncMemo
