#!/bin/bash
# seed_run.sh <patch.diff> <PROP> [tier] : apply a seeded change to /repo, run the check, undo the change.
p=$(realpath "$1"); prop=$2; tier=${3:-quick}
git -C /repo apply "$p" || exit 2
cd /verif; ./check $prop $tier 2>&1 | tail -8; rc=${PIPESTATUS[0]}
git -C /repo checkout -- .
exit $rc
