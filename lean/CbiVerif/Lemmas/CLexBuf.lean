import CbiVerif.Lemmas.CLexSim
/-! # C05: facts about `one_space_line` buffers (class level) -/
namespace CbiVerif.CLexSim
open CbiVerif.CClean CbiVerif.CLexRef

def anyVisible (es : List REmit) : Bool := es.any REmit.visible
def anyLitWs (es : List REmit) : Bool := es.any REmit.litWs

def CBuf.hasVis (b : CBuf) : Bool := b.parts.any (fun k => !k.isWhite)
def CBuf.OnlySp (b : CBuf) : Prop := (b.parts = [] ∧ b.trailing = false) ∨ (b.parts = [.space] ∧ b.trailing = true)

theorem hasVis_add (b : CBuf) (e : REmit) : (b.add e).hasVis = (b.hasVis || e.visible) := by
  cases e with
  | sp =>
    cases ht : b.trailing <;> simp [CBuf.add, CBuf.hasVis, REmit.visible, ht, Cls.isWhite]
  | ns k => simp [CBuf.add, CBuf.hasVis, REmit.visible]

theorem hasVis_addAll (es : List REmit) : ∀ b : CBuf, (b.addAll es).hasVis = (b.hasVis || anyVisible es) := by
  induction es with
  | nil => intro b; simp [CBuf.addAll, anyVisible]
  | cons e es ih =>
    intro b
    simp only [CBuf.addAll, List.foldl_cons] at ih ⊢
    rw [ih, hasVis_add]; simp [anyVisible, Bool.or_assoc]

theorem onlySp_add (b : CBuf) (e : REmit) (h : b.OnlySp) (hv : e.visible = false) (hl : e.litWs = false) :
    (b.add e).OnlySp := by
  cases e with
  | sp =>
    rcases h with ⟨hp, ht⟩ | ⟨hp, ht⟩
    · right; simp [CBuf.add, hp, ht]
    · right; simp [CBuf.add, hp, ht]
  | ns k => cases k <;> simp [REmit.visible, REmit.litWs, Cls.isWhite] at hv hl

theorem onlySp_addAll (es : List REmit) : ∀ (b : CBuf), b.OnlySp → anyVisible es = false → anyLitWs es = false →
    (b.addAll es).OnlySp := by
  induction es with
  | nil => intro b h _ _; simpa [CBuf.addAll] using h
  | cons e es ih =>
    intro b h hv hl
    simp only [anyVisible, anyLitWs, List.any_cons, Bool.or_eq_false_iff] at hv hl
    simp only [CBuf.addAll, List.foldl_cons]
    exact ih _ (onlySp_add b e h hv.1 hl.1) (by simpa [anyVisible] using hv.2) (by simpa [anyLitWs] using hl.2)

theorem blank_of_onlySp (b : CBuf) (h : b.OnlySp) : catOf b.parts = .blank := by
  rcases h with ⟨hp, _⟩ | ⟨hp, _⟩ <;> simp [catOf, hp]

theorem nonblank_of_hasVis (b : CBuf) (h : b.hasVis = true) : catOf b.parts ≠ .blank := by
  unfold CBuf.hasVis at h
  cases hp : b.parts with
  | nil => simp [hp] at h
  | cons x xs =>
    cases xs with
    | nil =>
      simp only [hp, List.any_cons, List.any_nil, Bool.or_false, Bool.not_eq_true'] at h
      cases x <;> simp [Cls.isWhite] at h <;> simp [catOf]
    | cons y ys =>
      simp only [catOf]
      split <;> simp

theorem onlySp_empty : ({} : CBuf).OnlySp := Or.inl ⟨rfl, rfl⟩

/-- a physical line is counted iff something visible survives on it — provided it does not hold
    white space inside a literal and nothing else (finding class F-C05-2) -/
theorem counted_iff (es : List REmit) (hk2 : anyLitWs es = true → anyVisible es = true) :
    (catOf (({} : CBuf).addAll es).parts != .blank) = anyVisible es := by
  cases hv : anyVisible es with
  | true =>
    have := nonblank_of_hasVis (({} : CBuf).addAll es) (by rw [hasVis_addAll, hv]; simp)
    simp [this]
  | false =>
    have hl : anyLitWs es = false := by
      cases h : anyLitWs es with
      | false => rfl
      | true => rw [hk2 h] at hv; exact absurd hv (by simp)
    simp [blank_of_onlySp _ (onlySp_addAll es _ onlySp_empty hv hl)]

/-! ## the first visible character decides the category -/

/-- class of the first visible character appended (given the one found so far) -/
def lead : Option Cls → List REmit → Option Cls
  | some k, _ => some k
  | none, [] => none
  | none, .sp :: es => lead none es
  | none, .ns k :: es => if k.isWhite then lead none es else some k

/-- no white space of a literal is appended before the first visible character -/
def leadOK : Option Cls → List REmit → Bool
  | some _, _ => true
  | none, [] => true
  | none, .sp :: es => leadOK none es
  | none, .ns k :: _ => !k.isWhite

def Shape (b : CBuf) : Option Cls → Prop
  | none => b.OnlySp
  | some k => k.isWhite = false ∧ ∃ rest, b.parts = k :: rest ∨ b.parts = .space :: k :: rest

theorem shape_add_some (b : CBuf) (k : Cls) (e : REmit) (h : Shape b (some k)) : Shape (b.add e) (some k) := by
  obtain ⟨hk, rest, hp⟩ := h
  refine ⟨hk, ?_⟩
  cases e with
  | sp =>
    cases ht : b.trailing
    · refine ⟨rest ++ [.space], ?_⟩
      rcases hp with hp | hp <;> simp [CBuf.add, ht, hp]
    · exact ⟨rest, by simpa [CBuf.add, ht] using hp⟩
  | ns c =>
    refine ⟨rest ++ [c], ?_⟩
    rcases hp with hp | hp <;> simp [CBuf.add, hp]

theorem shape_addAll_some (es : List REmit) : ∀ (b : CBuf) (k : Cls), Shape b (some k) → Shape (b.addAll es) (some k) := by
  induction es with
  | nil => intro b k h; simpa [CBuf.addAll] using h
  | cons e es ih =>
    intro b k h
    simp only [CBuf.addAll, List.foldl_cons]
    exact ih _ k (shape_add_some b k e h)

theorem lead_some (k : Cls) (es : List REmit) : lead (some k) es = some k := by
  cases es <;> rfl

theorem shape_addAll (es : List REmit) : ∀ (b : CBuf) (v : Option Cls), Shape b v → leadOK v es = true →
    Shape (b.addAll es) (lead v es) := by
  induction es with
  | nil =>
    intro b v h _
    cases v with
    | none => simpa [CBuf.addAll, lead] using h
    | some k => simpa [CBuf.addAll, lead] using h
  | cons e es ih =>
    intro b v h hok
    cases v with
    | some k => rw [lead_some]; exact shape_addAll_some _ b k h
    | none =>
      cases e with
      | sp =>
        simp only [lead, leadOK] at hok ⊢
        simp only [CBuf.addAll, List.foldl_cons]
        exact ih _ none (onlySp_add b .sp h rfl rfl) hok
      | ns k =>
        simp only [leadOK, Bool.not_eq_true'] at hok
        simp only [lead, hok, Bool.false_eq_true, if_false]
        simp only [CBuf.addAll, List.foldl_cons]
        apply shape_addAll_some
        refine ⟨hok, [], ?_⟩
        rcases h with ⟨hp, _⟩ | ⟨hp, _⟩
        · left; simp [CBuf.add, hp]
        · right; simp [CBuf.add, hp]

def catV : Option Cls → Cat
  | none => .blank
  | some k => if k == .hash then .cppDirective else .srcNonblank

theorem cat_of_shape (b : CBuf) (v : Option Cls) (h : Shape b v) : catOf b.parts = catV v := by
  cases v with
  | none => exact blank_of_onlySp b h
  | some k =>
    obtain ⟨hk, rest, hp⟩ := h
    rcases hp with hp | hp
    · cases rest with
      | nil => rw [hp]; cases k <;> simp [Cls.isWhite] at hk <;> simp [catOf, catV]
      | cons r rs => rw [hp]; cases k <;> simp [Cls.isWhite] at hk <;> simp [catOf, catV]
    · rw [hp]; cases k <;> simp [catOf, catV]

/-! ## `join` -/

def CBuf.join (o other : CBuf) : CBuf :=
  match other.parts with
  | [] => o
  | p :: ps =>
    if p == .space && o.trailing then ⟨o.parts ++ ps, other.trailing⟩
    else ⟨o.parts ++ other.parts, other.trailing⟩

theorem toC_join (o other : Buf) : (o.join other).toC = o.toC.join other.toC := by
  unfold Buf.join CBuf.join
  cases hp : other.parts with
  | nil => simp [Buf.toC, hp]
  | cons p ps =>
    simp only [Buf.toC, hp, List.map_cons]
    split <;> simp

theorem shape_join_some (l p : CBuf) (k : Cls) (h : Shape l (some k)) : Shape (l.join p) (some k) := by
  obtain ⟨hk, rest, hp⟩ := h
  refine ⟨hk, ?_⟩
  unfold CBuf.join
  cases hq : p.parts with
  | nil => exact ⟨rest, hp⟩
  | cons q qs =>
    simp only
    split
    · refine ⟨rest ++ qs, ?_⟩
      rcases hp with hp | hp <;> simp [hp]
    · refine ⟨rest ++ q :: qs, ?_⟩
      rcases hp with hp | hp <;> simp [hp]

theorem shape_join_none (l p : CBuf) (v : Option Cls) (hl : Shape l none) (hp : Shape p v) : Shape (l.join p) v := by
  unfold CBuf.join
  rcases hl with ⟨hlp, hlt⟩ | ⟨hlp, hlt⟩
  · -- l is empty
    cases hq : p.parts with
    | nil =>
      cases v with
      | none => exact Or.inl ⟨hlp, hlt⟩
      | some k => obtain ⟨_, rest, h⟩ := hp; rcases h with h | h <;> simp [hq] at h
    | cons q qs =>
      simp only [hlt, Bool.and_false, Bool.false_eq_true, if_false, hlp, List.nil_append]
      cases v with
      | none =>
        rcases hp with ⟨h1, h2⟩ | ⟨h1, h2⟩
        · simp [hq] at h1
        · right; rw [← hq]; exact ⟨h1, h2⟩
      | some k =>
        obtain ⟨hk, rest, h⟩ := hp
        exact ⟨hk, rest, by rw [← hq]; exact h⟩
  · -- l is one space
    cases hq : p.parts with
    | nil =>
      cases v with
      | none => exact Or.inr ⟨hlp, hlt⟩
      | some k => obtain ⟨_, rest, h⟩ := hp; rcases h with h | h <;> simp [hq] at h
    | cons q qs =>
      simp only [hlt, Bool.and_true, hlp]
      cases v with
      | none =>
        rcases hp with ⟨h1, h2⟩ | ⟨h1, h2⟩
        · simp [hq] at h1
        · rw [hq] at h1
          simp only [List.cons.injEq] at h1
          obtain ⟨rfl, rfl⟩ := h1
          right; simp [h2]
      | some k =>
        obtain ⟨hk, rest, h⟩ := hp
        refine ⟨hk, ?_⟩
        rw [hq] at h
        rcases h with h | h
        · simp only [List.cons.injEq] at h
          obtain ⟨rfl, rfl⟩ := h
          have : (q == Cls.space) = false := by cases q <;> simp [Cls.isWhite] at hk <;> rfl
          simp only [this, Bool.false_eq_true, if_false]
          exact ⟨qs, Or.inr (by simp)⟩
        · simp only [List.cons.injEq] at h
          obtain ⟨rfl, rfl⟩ := h
          simp only [beq_self_eq_true, if_true]
          exact ⟨rest, Or.inr (by simp)⟩

theorem lead_append (v : Option Cls) (xs ys : List REmit) : lead v (xs ++ ys) = lead (lead v xs) ys := by
  induction xs generalizing v with
  | nil => cases v <;> simp [lead]
  | cons e xs ih =>
    cases v with
    | some k => simp [lead_some]
    | none =>
      cases e with
      | sp => simpa [lead] using ih none
      | ns k =>
        cases hk : k.isWhite
        · simp [lead, hk, lead_some]
        · simpa [lead, hk] using ih none

/-- joining the buffer of the next physical line keeps the shape -/
theorem shape_join (l : CBuf) (v : Option Cls) (es : List REmit) (hl : Shape l v) (hok : leadOK v es = true) :
    Shape (l.join (({} : CBuf).addAll es)) (lead v es) := by
  cases v with
  | some k => rw [lead_some]; exact shape_join_some l _ k hl
  | none => exact shape_join_none l _ _ hl (shape_addAll es {} none onlySp_empty hok)

end CbiVerif.CLexSim
