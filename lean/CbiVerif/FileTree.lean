/-! C06: FileTree.insert keeps "every directory's figure = sum over the non-link files beneath it". -/
namespace CbiVerif.FT

inductive T
  | file (name : String) (link : Bool) (v : Nat)
  | dir (name : String) (v : Nat) (kids : List T)
deriving Repr

def T.name : T → String | .file n _ _ => n | .dir n _ _ => n

mutual
def leafSum : T → Nat
  | .file _ link v => if link then 0 else v
  | .dir _ _ kids => leafSumL kids
def leafSumL : List T → Nat
  | [] => 0
  | t :: ts => leafSum t + leafSumL ts
end

def Distinct (kids : List T) : Prop := kids.Pairwise (fun a b => a.name ≠ b.name)

mutual
def Inv : T → Prop
  | .file _ _ _ => True
  | .dir _ v kids => v = leafSumL kids ∧ Distinct kids ∧ InvL kids
def InvL : List T → Prop
  | [] => True
  | t :: ts => Inv t ∧ InvL ts
end

def bump (x : Nat) (link : Bool) (g : List T → List T) : T → T
  | .file n l v => .file n l v
  | .dir n v ks => .dir n (if link then v else v + x) (g ks)

/-- FileTree.insert below a list of children, by recursion on the remaining path components -/
def insertKids (x : Nat) (link : Bool) : List String → List T → List T
  | [], kids => kids
  | [f], kids => if kids.any (·.name == f) then kids else kids ++ [.file f link x]
  | d :: rest, kids =>
    if kids.any (·.name == d) then kids.map (fun k => if k.name == d then bump x link (insertKids x link rest) k else k)
    else kids ++ [bump x link (insertKids x link rest) (.dir d 0 [])]

/-- the whole tree: the root accumulates too -/
def insertRoot (x : Nat) (link : Bool) (path : List String) : T → T := bump x link (insertKids x link path)

theorem leafSumL_append (a b : List T) : leafSumL (a ++ b) = leafSumL a + leafSumL b := by
  induction a with
  | nil => simp [leafSumL]
  | cons t ts ih => simp [leafSumL, ih]; omega

theorem InvL_append (a b : List T) : InvL (a ++ b) ↔ InvL a ∧ InvL b := by
  induction a with
  | nil => simp [InvL]
  | cons t ts ih => simp [InvL, ih, and_assoc]

/-- names of children are pairwise distinct and all names along `path` that exist are directories … the
    hypotheses under which Python's "if this name exists, find the node" is harmless: a path is inserted once -/
def Fresh : List String → List T → Prop
  | [], _ => True
  | [f], kids => ¬ kids.any (·.name == f)
  | d :: rest, kids => ∀ k ∈ kids, k.name = d → match k with | .dir _ _ ks => Fresh rest ks | .file _ _ _ => False

/-- what one insertion adds to the leaf sum -/
def gain (x : Nat) (link : Bool) : Nat := if link then 0 else x

theorem inv_of_mem : ∀ (kids : List T) (k : T), InvL kids → k ∈ kids → Inv k := by
  intro kids
  induction kids with
  | nil => intro k _ h; simp at h
  | cons a as ih =>
    intro k hinv hk
    simp only [InvL] at hinv
    rcases List.mem_cons.mp hk with h | h
    · rw [h]; exact hinv.1
    · exact ih k hinv.2 h

theorem bump_name (x : Nat) (link : Bool) (g : List T → List T) (t : T) : (bump x link g t).name = t.name := by
  cases t <;> rfl

theorem distinct_append (kids : List T) (t : T) (h : Distinct kids) (hn : ∀ k ∈ kids, k.name ≠ t.name) :
    Distinct (kids ++ [t]) := by
  unfold Distinct at *
  rw [List.pairwise_append]
  exact ⟨h, by simp, fun a ha b hb => by simp at hb; subst hb; exact hn a ha⟩

theorem distinct_map (kids : List T) (f : T → T) (hf : ∀ k, (f k).name = k.name) (h : Distinct kids) :
    Distinct (kids.map f) := by
  unfold Distinct at *
  rw [List.pairwise_map]
  exact h.imp (fun {a b} hab => by rw [hf a, hf b]; exact hab)

theorem not_any_name (kids : List T) (d : String) (h : kids.any (·.name == d) = false) : ∀ k ∈ kids, k.name ≠ d := by
  intro k hk hn
  have := List.any_eq_false.mp h k hk
  simp [hn] at this

theorem map_spec (d : String) (g : T → T) (δ : Nat) : ∀ (kids : List T), Distinct kids → InvL kids →
    (kids.any (·.name == d) = true) →
    (∀ k ∈ kids, k.name = d → Inv (g k) ∧ leafSum (g k) = leafSum k + δ) →
    InvL (kids.map fun k => if k.name == d then g k else k) ∧
    leafSumL (kids.map fun k => if k.name == d then g k else k) = leafSumL kids + δ := by
  intro kids
  induction kids with
  | nil => intro _ _ h; simp at h
  | cons k ks ih =>
    intro hdis hinv hex hg
    simp only [Distinct, List.pairwise_cons] at hdis
    obtain ⟨hk, hks⟩ := hdis
    simp only [InvL] at hinv
    by_cases hn : k.name = d
    · have hnone : ∀ k' ∈ ks, (k'.name == d) = false := by
        intro k' hk'; have := hk k' hk'; simp; intro h; exact this (hn.trans h.symm)
      have hmap : (ks.map fun k => if k.name == d then g k else k) = ks := by
        have : ∀ k' ∈ ks, (fun k => if k.name == d then g k else k) k' = id k' := by
          intro k' hk'; simp [hnone k' hk']
        rw [List.map_congr_left this]; simp
      obtain ⟨hi, hs⟩ := hg k (by simp) hn
      simp only [List.map_cons, hn, beq_self_eq_true, if_true, hmap, InvL, leafSumL]
      exact ⟨⟨hi, hinv.2⟩, by rw [hs]; omega⟩
    · have hn' : (k.name == d) = false := by simpa using hn
      have hex' : ks.any (·.name == d) = true := by simpa [hn'] using hex
      obtain ⟨hi, hs⟩ := ih hks hinv.2 hex' (fun k' hk' => hg k' (List.mem_cons_of_mem _ hk'))
      simp only [List.map_cons, hn', Bool.false_eq_true, if_false, InvL, leafSumL]
      exact ⟨⟨hinv.1, hi⟩, by rw [hs]; omega⟩

theorem insertKids_spec (x : Nat) (link : Bool) : ∀ (path : List String) (kids : List T),
    path ≠ [] → InvL kids → Distinct kids → Fresh path kids →
    InvL (insertKids x link path kids) ∧ Distinct (insertKids x link path kids) ∧
      leafSumL (insertKids x link path kids) = leafSumL kids + gain x link := by
  intro path
  induction path with
  | nil => intro kids h; exact absurd rfl h
  | cons d rest ih =>
    intro kids _ hinv hdis hfresh
    cases rest with
    | nil =>
      have hf : (kids.any (·.name == d)) = false := by
        have : ¬ kids.any (·.name == d) = true := hfresh
        simpa using this
      simp only [insertKids, hf, Bool.false_eq_true, if_false]
      refine ⟨(InvL_append _ _).mpr ⟨hinv, by simp [InvL, Inv]⟩, ?_, ?_⟩
      · exact distinct_append kids _ hdis (by intro k hk; exact not_any_name kids d hf k hk)
      · rw [leafSumL_append]; simp [leafSumL, leafSum, gain]
    | cons r rs =>
      simp only [insertKids]
      by_cases hex : kids.any (·.name == d) = true
      · simp only [hex, if_true]
        have hm := map_spec d (bump x link (insertKids x link (r :: rs))) (gain x link) kids hdis hinv hex (by
          intro k hk hn
          have hfk := hfresh k hk hn
          cases k with
          | file n l v => exact absurd hfk (by simp)
          | dir n v ks =>
            have hkinv : Inv (.dir n v ks) := inv_of_mem kids _ hinv hk
            simp only [Inv] at hkinv
            obtain ⟨hv, hdk, hksinv⟩ := hkinv
            obtain ⟨hi, hd2, hs⟩ := ih ks (by simp) hksinv hdk hfk
            refine ⟨?_, ?_⟩
            · simp only [bump, Inv]
              refine ⟨?_, hd2, hi⟩
              rw [hs, hv]; simp [gain]; split <;> simp
            · simp only [bump, leafSum]
              exact hs)
        refine ⟨hm.1, ?_, hm.2⟩
        apply distinct_map kids _ _ hdis
        intro k; split
        · exact bump_name _ _ _ _
        · rfl
      · have hex' : kids.any (·.name == d) = false := by simpa using hex
        simp only [hex', Bool.false_eq_true, if_false]
        have hrec := ih [] (by simp) (by simp [InvL]) (by simp [Distinct]) (by
          cases rs with
          | nil => simp [Fresh]
          | cons a b => intro k hk; simp at hk)
        obtain ⟨hi, hd2, hs⟩ := hrec
        refine ⟨(InvL_append _ _).mpr ⟨hinv, ?_⟩, ?_, ?_⟩
        · simp only [bump, InvL, Inv, and_true]
          refine ⟨?_, hd2, hi⟩
          rw [hs]; simp [leafSumL, gain]
        · exact distinct_append kids _ hdis (by
            intro k hk; rw [bump_name]; exact not_any_name kids d hex' k hk)
        · rw [leafSumL_append]
          simp only [bump, leafSumL, leafSum, Nat.add_zero]
          rw [hs]; simp [leafSumL]

/-- **C06.tree_sums**: inserting a fresh path keeps "every directory figure = sum over the non-link files beneath it",
    at every level, and the root gains exactly the file's figure (0 for a symlink). -/
theorem insertRoot_inv (x : Nat) (link : Bool) (path : List String) (n : String) (v : Nat) (kids : List T)
    (hp : path ≠ []) (h : Inv (.dir n v kids)) (hf : Fresh path kids) :
    Inv (insertRoot x link path (.dir n v kids)) ∧
      leafSum (insertRoot x link path (.dir n v kids)) = leafSum (.dir n v kids) + gain x link := by
  simp only [Inv] at h
  obtain ⟨hv, hd, hi⟩ := h
  obtain ⟨h1, h2, h3⟩ := insertKids_spec x link path kids hp hi hd hf
  simp only [insertRoot, bump, Inv, leafSum]
  refine ⟨⟨?_, h2, h1⟩, h3⟩
  rw [h3, hv]; simp [gain]; split <;> simp

end CbiVerif.FT
#print axioms CbiVerif.FT.insertRoot_inv
