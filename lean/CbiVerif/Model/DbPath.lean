import CbiVerif.Generated.Tables
import CbiVerif.Generated.DbSchema
/-!
Model of the path logic of `codebasin/config.py:load_database` (C13).

* POSIX path algebra exactly as CPython 3.12's `posixpath` does it, on character
  lists: `isabs`, `join`, `normpath` (collapse `//`, `.`, `..` lexically; exactly
  two leading slashes are kept, three or more become one), `abspath` with the
  working directory as an explicit argument.
* `pathlib.PurePosixPath(p).suffix` (used by `source.is_source_file`).
* `shlex.split` (POSIX mode, no comments) for the `command` form of an entry.
* the JSON-schema test of `util._validate_json(…, "compiledb")` as a predicate on
  the JSON shape, driven by the tables re-extracted from the schema file.
* `load_database`: per entry `is_supported`, `filedir`, `path`, existence test,
  one result entry per compiler pass with `include_paths` made absolute.

The file system enters through the oracle `ex : Str → Bool` (`os.path.exists`) and the
compiler emulation (C11/C12) through `parse : argv ↦ list of (pass payload, raw include_paths)`.
Core Lean only (runs in the native driver).
-/
namespace CbiVerif.DbPath

abbrev Str := List Char

/-! ## posixpath -/

/-- `posixpath.isabs`: `s.startswith('/')` -/
def isabs : Str → Bool
  | '/' :: _ => true
  | _ => false

/-- `path.endswith('/')` -/
def endsSlash (a : Str) : Bool := a.getLast? == some '/'

/-- `posixpath.join(a, b)` -/
def join (a b : Str) : Str :=
  if isabs b then b
  else if a.isEmpty || endsSlash a then a ++ b
  else a ++ '/' :: b

/-- `str.split('/')` (never empty: `''.split('/') == ['']`) -/
def split : Str → List Str
  | [] => [[]]
  | c :: cs =>
    if c = '/' then [] :: split cs
    else match split cs with
      | [] => [[c]]
      | h :: t => (c :: h) :: t

/-- `'/'.join(comps)` -/
def joinSlash : List Str → Str
  | [] => []
  | [x] => x
  | x :: y :: r => x ++ '/' :: joinSlash (y :: r)

/-- `initial_slashes` of `posixpath.normpath`: `path.startswith('/')`, and 2 when
`path.startswith('//') and not path.startswith('///')` -/
def initialSlashes (p : Str) : Nat :=
  if isabs p then
    if isabs (p.drop 1) ∧ ¬ isabs (p.drop 2) then 2 else 1
  else 0

def dot : Str := ['.']
def dotdot : Str := ['.', '.']

/-- one iteration of the component loop of `normpath`; the stack `new_comps` is kept reversed
(head = last component) -/
def normStep (rooted : Bool) (stk : List Str) (c : Str) : List Str :=
  if c = [] ∨ c = dot then stk
  else if c ≠ dotdot then c :: stk
  else match stk with
    | [] => if rooted then [] else [dotdot]
    | t :: r => if t = dotdot then dotdot :: t :: r else r

/-- the final `new_comps` of `normpath` -/
def normComps (p : Str) : List Str :=
  ((split p).foldl (normStep (initialSlashes p != 0)) []).reverse

/-- `posixpath.normpath` -/
def normpath (p : Str) : Str :=
  if p = [] then dot
  else
    let out := List.replicate (initialSlashes p) '/' ++ joinSlash (normComps p)
    if out = [] then dot else out

/-- `posixpath.abspath` with `os.getcwd()` = `cwd` -/
def abspath (cwd p : Str) : Str :=
  normpath (if isabs p then p else join cwd p)

/-! ## pathlib suffix, `is_source_file` -/

/-- `PurePosixPath(p).name`: last component that is neither empty nor `.` -/
def pyName (p : Str) : Str :=
  (((split p).filter fun c => !(c = [] ∨ c = dot)).getLast?).getD []

/-- `name.rfind('.')` scanning left to right -/
def rfindDot : Str → Nat → Option Nat → Option Nat
  | [], _, acc => acc
  | c :: cs, i, acc => rfindDot cs (i + 1) (if c = '.' then some i else acc)

/-- `PurePosixPath.suffix` of a final component -/
def suffixOfName (name : Str) : Str :=
  match rfindDot name 0 none with
  | some i => if 0 < i ∧ i < name.length - 1 then name.drop i else []
  | none => []

/-- `codebasin.source.is_source_file` (table regenerated from `source.py`) -/
def isSource (file : Str) : Bool :=
  CbiVerif.Gen.sourceExts.contains (String.ofList (suffixOfName (pyName file)))

/-! ## shlex.split (posix, comments off, whitespace_split) -/

inductive Err | schema | keyError | noClosingQuotation | noEscapedCharacter
deriving DecidableEq, Repr, Inhabited

inductive ShState | none | word | sq | dq | escWord | escDq
deriving DecidableEq, Repr

def shWhite (c : Char) : Bool := c = ' ' ∨ c = '\t' ∨ c = '\r' ∨ c = '\n'

/-- state machine of `shlex.read_token`; `tok` is the current token reversed, `out` the finished tokens reversed -/
def shRun : ShState → Str → List Str → Str → Except Err (List Str)
  | .none, _, out, [] => .ok out.reverse
  | .word, tok, out, [] => .ok ((tok.reverse :: out).reverse)
  | .sq, _, _, [] => .error .noClosingQuotation
  | .dq, _, _, [] => .error .noClosingQuotation
  | .escWord, _, _, [] => .error .noEscapedCharacter
  | .escDq, _, _, [] => .error .noEscapedCharacter
  | .none, _, out, c :: cs =>
    if shWhite c then shRun .none [] out cs
    else if c = '\\' then shRun .escWord [] out cs
    else if c = '\'' then shRun .sq [] out cs
    else if c = '"' then shRun .dq [] out cs
    else shRun .word [c] out cs
  | .word, tok, out, c :: cs =>
    if shWhite c then shRun .none [] (tok.reverse :: out) cs
    else if c = '\\' then shRun .escWord tok out cs
    else if c = '\'' then shRun .sq tok out cs
    else if c = '"' then shRun .dq tok out cs
    else shRun .word (c :: tok) out cs
  | .sq, tok, out, c :: cs =>
    if c = '\'' then shRun .word tok out cs else shRun .sq (c :: tok) out cs
  | .dq, tok, out, c :: cs =>
    if c = '"' then shRun .word tok out cs
    else if c = '\\' then shRun .escDq tok out cs
    else shRun .dq (c :: tok) out cs
  | .escWord, tok, out, c :: cs => shRun .word (c :: tok) out cs
  | .escDq, tok, out, c :: cs =>
    if c ≠ '\\' ∧ c ≠ '"' then shRun .dq (c :: '\\' :: tok) out cs
    else shRun .dq (c :: tok) out cs

def shSplit (s : Str) : Except Err (List Str) := shRun .none [] [] s

/-! ## JSON shape and the schema test -/

inductive JV
  | null | bool (b : Bool) | num | str (s : Str) | arr (l : List JV) | obj (kvs : List (Str × JV))

instance : Inhabited JV := ⟨.null⟩

def JV.get? (kvs : List (Str × JV)) (k : String) : Option JV :=
  (kvs.find? fun kv => String.ofList kv.1 == k).map (·.2)

def JV.isStr : JV → Bool
  | .str _ => true
  | _ => false

def JV.isStrArr : JV → Bool
  | .arr l => l.all JV.isStr
  | _ => false

/-- one item of the database against `items` of the schema: an object whose listed
properties have the listed types, with all `required` keys and one `anyOf` alternative -/
def itemOK : JV → Bool
  | .obj kvs =>
    (CbiVerif.Gen.dbSchemaProps.all fun (k, ty) =>
      match JV.get? kvs k with
      | none => true
      | some v => if ty == "string" then v.isStr else v.isStrArr) &&
    (CbiVerif.Gen.dbSchemaRequired.all fun k => (JV.get? kvs k).isSome) &&
    (CbiVerif.Gen.dbSchemaAnyOf.isEmpty ||
      CbiVerif.Gen.dbSchemaAnyOf.any fun req => req.all fun k => (JV.get? kvs k).isSome)
  | _ => false

/-- `_validate_json(doc, "compiledb")` does not raise -/
def schemaOK : JV → Bool
  | .arr items => items.all itemOK
  | _ => false

/-! ## CompileCommand -/

structure Cmd where
  file : Str
  directory : Option Str := none
  arguments : Option (List Str) := none
  command : Option Str := none
deriving Repr, Inhabited

def strOf? : Option JV → Option Str
  | some (.str s) => some s
  | _ => none

def strArrOf? : Option JV → Option (List Str)
  | some (.arr l) => some (l.filterMap fun v => match v with | .str s => some s | _ => none)
  | _ => none

/-- `CompileCommand.from_json` on a schema-valid item (`instance["file"]` raises `KeyError`) -/
def cmdOfJson : JV → Except Err Cmd
  | .obj kvs =>
    match strOf? (JV.get? kvs "file") with
    | none => .error .keyError
    | some f => .ok { file := f, directory := strOf? (JV.get? kvs "directory"),
                      arguments := strArrOf? (JV.get? kvs "arguments"),
                      command := strOf? (JV.get? kvs "command") }
  | _ => .error .schema

/-- `CompileCommand.arguments` -/
def Cmd.argv (c : Cmd) : Except Err (List Str) :=
  match c.arguments with
  | some a => .ok a
  | none => shSplit (c.command.getD [])

/-! ## load_database -/

structure Out (α : Type) where
  file : Str
  includePaths : List Str
  pass : α
deriving Repr

/-- `log.warning(f"Ignoring non-existent file: {path}")` -/
inductive Log | missing (path : Str)
deriving DecidableEq, Repr

/-- the directory relative paths of an entry are resolved against -/
def filedir (cwd root : Str) (d : Option Str) : Str :=
  match d with
  | none => root
  | some d => if isabs d then d else abspath cwd (join root d)

/-- the analysed file of an entry -/
def entryPath (cwd root : Str) (c : Cmd) : Str :=
  if isabs c.file then abspath cwd c.file
  else abspath cwd (join (filedir cwd root c.directory) c.file)

/-- the loop body of `load_database` for one command -/
def entryOut {α : Type} (cwd root : Str) (ex : Str → Bool) (parse : List Str → List (α × List Str))
    (c : Cmd) : Except Err (List (Out α) × List Log) :=
  match c.argv with
  | .error e => .error e
  | .ok argv =>
    if argv.isEmpty || !isSource c.file then .ok ([], [])
    else
      let fd := filedir cwd root c.directory
      let path := entryPath cwd root c
      if !ex path then .ok ([], [.missing path])
      else .ok ((parse argv).map fun (a, incs) =>
                  { file := path, includePaths := incs.map fun f => abspath cwd (join fd f), pass := a }, [])

/-- the loop of `load_database`: results and warnings in database order -/
def loadList {α : Type} (cwd root : Str) (ex : Str → Bool) (parse : List Str → List (α × List Str)) :
    List Cmd → Except Err (List (Out α) × List Log)
  | [] => .ok ([], [])
  | c :: cs =>
    match entryOut cwd root ex parse c with
    | .error e => .error e
    | .ok (o, l) =>
      match loadList cwd root ex parse cs with
      | .error e => .error e
      | .ok (os, ls) => .ok (o ++ os, l ++ ls)

def cmdsOfJson : List JV → Except Err (List Cmd)
  | [] => .ok []
  | j :: js =>
    match cmdOfJson j with
    | .error e => .error e
    | .ok c => match cmdsOfJson js with
      | .error e => .error e
      | .ok cs => .ok (c :: cs)

structure Result (α : Type) where
  entries : List (Out α)
  logs : List Log
  /-- the closing "No files found in compilation database" warning -/
  emptyWarning : Bool

/-- `config.load_database(dbpath, rootdir)` on the parsed JSON document -/
def loadDatabase {α : Type} (cwd root : Str) (ex : Str → Bool) (parse : List Str → List (α × List Str))
    (doc : JV) : Except Err (Result α) :=
  if !schemaOK doc then .error .schema
  else match doc with
    | .arr items =>
      match cmdsOfJson items with
      | .error e => .error e
      | .ok cmds =>
        match loadList cwd root ex parse cmds with
        | .error e => .error e
        | .ok (os, ls) => .ok { entries := os, logs := ls, emptyWarning := os.isEmpty }
    | _ => .error .schema

end CbiVerif.DbPath
