import CbiVerif.PP.Argv
/-! C11: left-to-right form of the argparse model, the property-level extractor, and `Tame → model = extract`. -/
namespace CbiVerif.Argv

structure Cfg where
  defines : List String := []
  includePaths : List String := []
  systemPaths : List String := []
  includeFiles : List String := []
deriving DecidableEq, Repr

/-- the four value flags of the property and the list each feeds -/
inductive VFlag | D | I | isystem | include deriving DecidableEq, Repr

def VFlag.str : VFlag → String | .D => "-D" | .I => "-I" | .isystem => "-isystem" | .include => "-include"
def Cfg.add (c : Cfg) : VFlag → String → Cfg
  | .D, v => { c with defines := c.defines ++ [v] }
  | .I, v => { c with includePaths := c.includePaths ++ [v] }
  | .isystem, v => { c with systemPaths := c.systemPaths ++ [v] }
  | .include, v => { c with includeFiles := c.includeFiles ++ [v] }

/-- what one argument means to the *model* after classification (abstract view of `classify` on the base table) -/
inductive View
  | positional                      -- pattern 'A'
  | unknown                         -- unknown optional → extras
  | ambiguous
  | valueSep (f : VFlag)            -- exact value flag, value is the next argument
  | valueAtt (f : VFlag) (v : String)   -- value attached (short form, or via '=')
  | ignoreReq                       -- bare -o : needs one argument
  | ignoreOpt                       -- bare -O / -g / -c : takes a following positional if there is one
  | ignoreAtt                       -- -O2, -ofile, -g3, -ccbin : explicit argument, ignored
  | ddash                           -- "--"
deriving DecidableEq, Repr

/-- left-to-right consumption (after the up-front ambiguity check) -/
def consumeLR (view : String → View) : List String → Bool → Cfg → Except PErr Cfg
  | [], _, c => .ok c
  | _ :: rest, true, c => consumeLR view rest true c
  | [a], false, c =>
    match view a with
    | .ddash | .positional | .unknown | .ignoreAtt | .ignoreOpt => .ok c
    | .ambiguous => .error .systemExit
    | .valueAtt f v => .ok (c.add f v)
    | .valueSep _ | .ignoreReq => .error (.argumentError "expected one argument")
  | a :: v :: rest', false, c =>
    match view a with
    | .ddash => consumeLR view (v :: rest') true c
    | .positional | .unknown | .ignoreAtt => consumeLR view (v :: rest') false c
    | .ambiguous => .error .systemExit
    | .valueAtt f w => consumeLR view (v :: rest') false (c.add f w)
    | .valueSep f =>
      if view v == .positional then consumeLR view rest' false (c.add f v) else .error (.argumentError "expected one argument")
    | .ignoreReq =>
      if view v == .positional then consumeLR view rest' false c else .error (.argumentError "expected one argument")
    | .ignoreOpt =>
      if view v == .positional then consumeLR view rest' false c else consumeLR view (v :: rest') false c

def parseLR (view : String → View) (args : List String) : Except PErr Cfg :=
  -- argparse classifies everything before "--" up front: an ambiguous argument exits at once
  let upfront := args.takeWhile (fun a => view a != .ddash)
  if upfront.any (fun a => view a == .ambiguous) then .error .systemExit
  else consumeLR view args false {}

/-- the property's reading of one argument: which value flag it is, and its attached value if any -/
inductive Spec1 | other | sep (f : VFlag) | att (f : VFlag) (v : String) deriving DecidableEq, Repr

/-- the property-level extractor: scan left to right; a value flag takes its attached remainder, else the next argument -/
def extract (spec : String → Spec1) : List String → Cfg → Cfg
  | [], c => c
  | [a], c => match spec a with | .att f v => c.add f v | _ => c
  | a :: v :: rest', c =>
    match spec a with
    | .other => extract spec (v :: rest') c
    | .att f w => extract spec (v :: rest') (c.add f w)
    | .sep f => extract spec rest' (c.add f v)

/-- a command line is tame when, position by position, the model's view and the property's reading coincide
    and none of the recorded finding classes occurs -/
def Tame (view : String → View) (spec : String → Spec1) : List String → Prop
  | [] => True
  | [a] =>
    match view a, spec a with
    | .valueAtt f v, .att g w => f = g ∧ v = w
    | .positional, .other | .unknown, .other | .ignoreAtt, .other | .ignoreOpt, .other => True
    | _, _ => False
  | a :: v :: rest' =>
    match view a, spec a with
    | .valueSep f, .sep g => f = g ∧ view v = .positional ∧ Tame view spec rest'
    | .valueAtt f x, .att g w => f = g ∧ x = w ∧ Tame view spec (v :: rest')
    | .positional, .other | .unknown, .other | .ignoreAtt, .other => Tame view spec (v :: rest')
    | .ignoreReq, .other => view v = .positional ∧ spec v = .other ∧ Tame view spec rest'
    | .ignoreOpt, .other =>
      (view v = .positional → spec v = .other ∧ Tame view spec rest') ∧ (view v ≠ .positional → Tame view spec (v :: rest'))
    | _, _ => False       -- "--", ambiguous prefixes, or any disagreement between view and reading

/-- skipping one argument that the property ignores -/
theorem extract_skip (spec : String → Spec1) (v : String) (rest : List String) (c : Cfg) (h : spec v = .other) :
    extract spec (v :: rest) c = extract spec rest c := by
  cases rest with
  | nil => simp [extract, h]
  | cons w r => simp [extract, h]

theorem consume_eq_extract (view : String → View) (spec : String → Spec1) :
    ∀ (n : Nat) (args : List String) (c : Cfg), args.length ≤ n → Tame view spec args →
      consumeLR view args false c = .ok (extract spec args c) := by
  intro n
  induction n with
  | zero =>
    intro args c hl _
    have : args = [] := List.length_eq_zero_iff.mp (Nat.le_zero.mp hl)
    subst this; simp [consumeLR, extract]
  | succ n ih =>
    intro args c hl ht
    match args, hl, ht with
    | [], _, _ => simp [consumeLR, extract]
    | [a], _, ht =>
      simp only [Tame] at ht
      simp only [consumeLR, extract]
      cases hv : view a <;> cases hs : spec a <;> simp only [hv, hs] at ht <;> first
        | exact absurd ht id
        | (obtain ⟨rfl, rfl⟩ := ht; rfl)
        | rfl
    | a :: v :: rest', hl, ht =>
      have hl1 : (v :: rest').length ≤ n := by simp at hl ⊢; omega
      have hl2 : rest'.length ≤ n := by simp at hl ⊢; omega
      simp only [Tame] at ht
      simp only [consumeLR, extract]
      cases hv : view a <;> cases hs : spec a <;> simp only [hv, hs] at ht <;> first
        | exact absurd ht id
        | exact ih _ _ hl1 ht
        | (obtain ⟨rfl, rfl, ht⟩ := ht; exact ih _ _ hl1 ht)
        | (obtain ⟨rfl, hp, ht⟩ := ht; simp only [hp, beq_self_eq_true, if_true]; exact ih _ _ hl2 ht)
        | (obtain ⟨hp, hso, ht⟩ := ht
           simp only [hp, beq_self_eq_true, if_true]
           rw [ih _ _ hl2 ht, extract_skip spec v rest' c hso])
        | (obtain ⟨h1, h2⟩ := ht
           by_cases hp : view v = .positional
           · obtain ⟨hso, ht'⟩ := h1 hp
             simp only [hp, beq_self_eq_true, if_true]
             rw [ih _ _ hl2 ht', extract_skip spec v rest' c hso]
           · have : (view v == View.positional) = false := by simpa using hp
             simp only [this, Bool.false_eq_true, if_false]
             exact ih _ _ hl1 (h2 hp))

/-- **C11.main**: on a tame command line the argparse model returns exactly what the property-level extractor returns
    (same values, same order, nothing else), and does not fail. -/
theorem parseLR_eq_extract (view : String → View) (spec : String → Spec1) (args : List String)
    (hamb : ∀ a ∈ args, view a ≠ .ambiguous) (ht : Tame view spec args) :
    parseLR view args = .ok (extract spec args {}) := by
  unfold parseLR
  have : (args.takeWhile (fun a => view a != .ddash)).any (fun a => view a == .ambiguous) = false := by
    rw [List.any_eq_false]
    intro a ha
    have := hamb a (List.takeWhile_subset _ ha)
    simpa using this
  simp only [this, Bool.false_eq_true, if_false]
  exact consume_eq_extract view spec args.length args {} (Nat.le_refl _) ht

end CbiVerif.Argv
#print axioms CbiVerif.Argv.parseLR_eq_extract
