"""Translator plug-in (C05, C17): regenerate the one-step transition tables of the line cleaners of
`codebasin/file_source.py` -> Generated/CCleanTable.lean, Generated/FCleanTable.lean, and the one-iteration table of the
loop of `fortran_file_source` -> Generated/FLoopTable.lean.

Extraction method: **execution** of the real classes from the checkout under `repo` (method (b) of the
builder task), not a translation of the `if/elif` ladder.  Reason: a table obtained by running the code is
invariant under every behaviour-preserving rewrite of `process()` (re-ordered branches, a `match` statement,
a dispatch dict, local aliases, renamed states), so a harmless refactoring cannot raise an alarm, whereas
an `ast` translator accepts one code shape only.  What execution cannot give by itself — that the finitely
many probes are representative — is regenerated and validated here on every run, and every validation
failure raises (= failed extraction = broken tie for the harness):

* the **state set** is discovered by closure from the initial state (never assumed); states are numbered
  in discovery order, so names do not matter (they are emitted as documentation only);
* the **character partition** is computed, not assumed: every ASCII character (and a few non-ASCII ones:
  Unicode blanks/letters) is probed in every cell; two characters are in the same class iff they behave
  identically in every cell ("behave" = successor stack + what is done to the line buffer, the character
  itself being abstracted to "the current character").  The table lists the class of every probed character;
* the cell key is (directives_only, the WHOLE stack, buffer-is-BLANK) for every stack reachable from the initial
  one under `process` (any ASCII character, any buffer category) and `logical_newline` — a finite set (28 / 16
  stacks), computed by closure; that nothing else is looked at is checked by re-probing with other buffer
  contents of the same category and by comparing two-character calls with two one-character calls (no hidden
  per-call state);
* the buffer is a recording subclass of the real `one_space_line` that delegates every call; the final
  buffer must equal the replay of the recorded effects (no direct manipulation of `parts`).

`c_file_source`'s per-line code (continuation detection, when `logical_newline` is called, the blank-line
test, when the logical line ends) and `one_space_line.join/category` are tabulated the same way (see
`c_line_table`), with `line_info` replaced by a recording subclass.

For `fortran_cleaner` the unit of execution is a call of `process(line)` (`dir_check` consumes the rest of
the line from inside), so its table lists, for every configuration (stack, verify_continue) reachable at a
line start (closure computed by execution), the result of `process(line)` into a fresh buffer for every line
of length <= 2 over the class representatives and every line of length 3 that starts with a representative
that is consumed silently (`!`, `&`: the characters that open a mode not visible in the buffer) — i.e. every
inner configuration (stack top x scan mode x "verify_continue holds blanks") followed by every class.  Its
character partition is refined together with the representatives until stable: c ~ c' iff they are
interchangeable (tagged by object identity, so that the probed character is recognised wherever it ends up)
in every context line p + c + q, p and q of length <= 1 over the representatives, from every start configuration.

The loop of `fortran_file_source` itself (`floop_tables`) is executed as a whole, on real texts: a loop configuration
(cleaner configuration x pending logical line: empty / blank / code / directive-like, with and without `trailing_space`)
is reached by a prefix of physical lines found by breadth-first closure, then every physical-line kind is read: one line
of every class of the step table above (classes as far as the loop can see the result of `process`), directive lines,
`#` behind `&` / text, a two-line logical line, a blank line.  Nothing of the loop is patched: the file object reports
every request for a line (`c_file_source` asks for line j + 1 only when the loop is done with line j, so the requests
delimit the iterations; validated: the observations on a prefix do not depend on what follows), the yielded logical
lines are snapshotted, the cleaner is a registering subclass (to read `state` / `verify_continue`), and the pending
logical line is revealed by what is flushed at the end of the file and after the follow-up lines `A` / TAB `A`.  The
logical lines the real C pass yields for the same text are recorded as the input of the model's step.

The result is cached under tools/gen/.cleaner_cache.json keyed by the SHA-256 of file_source.py, of this script
and the interpreter version (the executed classes use builtins and itertools only); `VERIF_NO_GEN_CACHE=1`
forces re-execution.  An unchanged tree therefore costs a hash, any edit of file_source.py re-executes everything.
"""
from __future__ import annotations

import itertools
import sys
from pathlib import Path

ASCII = [chr(n) for n in range(128)]
EXTRA = [chr(n) for n in (0x85, 0xA0, 0xE9, 0x3A9, 0x1680, 0x2003, 0x2028, 0x3000, 0x4E2D)]


class Unsupported(Exception):
    pass


# --------------------------------------------------------------------------
# loading the code under verification
# --------------------------------------------------------------------------
def load_file_source(repo):
    repo = Path(repo).resolve()
    for k in list(sys.modules):
        if k == "codebasin" or k.startswith("codebasin."):
            f = getattr(sys.modules[k], "__file__", None)
            if f and not Path(f).resolve().is_relative_to(repo):
                del sys.modules[k]
    if not sys.path or sys.path[0] != str(repo):
        sys.path.insert(0, str(repo))
    import importlib

    fs = importlib.import_module("codebasin.file_source")
    if not Path(fs.__file__).resolve().is_relative_to(repo):
        raise Unsupported(f"codebasin.file_source imported from {fs.__file__}, not from {repo}")
    return fs


# --------------------------------------------------------------------------
# recording line buffer
# --------------------------------------------------------------------------
def recording_buffer(fs):
    base = fs.one_space_line

    class Rec(base):
        """the real one_space_line; every mutating call is delegated and its *effect* is logged:
        "sp" (a blank was merged in) or ("ns", x) (x appended as a non-blank part)"""

        def __init__(self):
            base.__init__(self)
            if not hasattr(self, "log"):
                self.log = []

        def _do(self, meth, *a):
            n0, t0 = len(self.parts), self.trailing_space
            meth(self, *a)
            n1, t1 = len(self.parts), self.trailing_space
            if n1 == n0 and t1 and t0:
                self.log.append("sp")
            elif n1 == n0 + 1 and t1 and not t0 and self.parts[-1] == " ":
                self.log.append("sp")
            elif n1 == n0 + 1 and not t1:
                self.log.append(("ns", self.parts[-1]))
            else:
                raise Unsupported(f"one_space_line.{meth.__name__}{a}: effect not understood")

        def append_char(self, c):
            self._do(base.append_char, c)

        def append_space(self):
            self._do(base.append_space)

        def append_nonspace(self, c):
            self._do(base.append_nonspace, c)

    return Rec


def preload(Rec, parts, trailing):
    b = Rec()
    b.parts = list(parts)
    b.trailing_space = trailing
    b.log = []
    b.start = (list(parts), trailing)
    return b


def check_replay(fs, b):
    """the buffer content must be what the logged effects produce"""
    r = fs.one_space_line()
    r.parts, r.trailing_space = list(b.start[0]), b.start[1]
    for e in b.log:
        if e == "sp":
            if not r.trailing_space:
                r.parts.append(" ")
                r.trailing_space = True
        else:
            r.parts.append(e[1])
            r.trailing_space = False
    if (r.parts, r.trailing_space) != (b.parts, b.trailing_space):
        raise Unsupported("the line buffer was modified other than through append_char/append_space/append_nonspace")


BLANK_LOADS = [([], False), ([" "], True)]
NONBLANK_LOADS = [(["x"], False), (["x", " "], True), (["#"], False), ([" ", "#"], False), (["x", "#"], False)]


def kinds(log, ch):
    """effects relative to the probed character: 0 blank, 1 the character itself, 2 a literal '/'"""
    out = []
    for e in log:
        if e == "sp":
            out.append(0)
        elif ch is not None and e[1] == ch:
            out.append(1)
        elif e[1] == "/":
            out.append(2)
        else:
            raise Unsupported(f"a character other than the current one or '/' is written: {e[1]!r}")
    return tuple(out)


# --------------------------------------------------------------------------
# c_cleaner
# --------------------------------------------------------------------------
class CProbe:
    def __init__(self, fs):
        self.fs = fs
        self.Rec = recording_buffer(fs)
        self.states = []

    def run(self, d, stack, load, text):
        """process(text) from `stack` (bottom first, names): ("raise",) or (new stack names, effects)"""
        b = preload(self.Rec, *load)
        cl = self.fs.c_cleaner(b, d)
        cl.state = list(stack)
        try:
            cl.process(iter(text))
        except Unsupported:
            raise
        except Exception:
            return ("raise",)
        check_replay(self.fs, b)
        if not (isinstance(cl.state, list) and all(isinstance(s, str) for s in cl.state)):
            raise Unsupported("c_cleaner.state is no longer a list of names")
        return (tuple(cl.state), tuple(b.log))

    def newline(self, d, stack, load):
        b = preload(self.Rec, *load)
        cl = self.fs.c_cleaner(b, d)
        cl.state = list(stack)
        try:
            cl.logical_newline()
        except Unsupported:
            raise
        except Exception:
            return ("raise",)
        check_replay(self.fs, b)
        return (tuple(cl.state), tuple(b.log))

    def succ(self, d, stack):
        """all stacks one character or one `logical_newline` away (both buffer categories)"""
        out = []
        for load in (BLANK_LOADS[0], NONBLANK_LOADS[0]):
            for ch in ASCII:
                r = self.run(d, stack, load, ch)
                if r[0] != "raise":
                    out.append(r[0])
        r = self.newline(d, stack, BLANK_LOADS[0])
        if r[0] != "raise":
            out.append(r[0])
        return out

    def discover(self):
        """closure of the stacks reachable from the initial one under `process` (any ASCII character, any
        buffer category) and `logical_newline` (at any time: an over-approximation of what `c_file_source`
        does), breadth first; state names are numbered in order of first appearance"""
        init = self.fs.c_cleaner(self.Rec(), False).state
        if not (isinstance(init, list) and len(init) == 1 and isinstance(init[0], str)):
            raise Unsupported("initial c_cleaner.state is not a one-element list of names")
        self.states = list(init)
        self.reach = {}
        for d in (False, True):
            seen = [tuple(init)]
            i = 0
            while i < len(seen):
                for s in self.succ(d, list(seen[i])):
                    for n in s:
                        if n not in self.states:
                            self.states.append(n)
                    if s not in seen:
                        seen.append(s)
                i += 1
                if len(seen) > 400 or len(self.states) > 40:
                    raise Unsupported("the set of reachable cleaner stacks is not small (> 400)")
            self.reach[d] = seen
        return self.states

    def ids(self, names):
        try:
            return [self.states.index(n) for n in reversed(names)]  # top first
        except ValueError as e:
            raise Unsupported(f"state outside the discovered closure: {e}")

    def entry(self, r, ch):
        if r[0] == "raise":
            return (True, (), ())
        return (False, tuple(self.ids(r[0])), kinds(r[1], ch))

    def cell(self, d, stack, blank, ch):
        load = BLANK_LOADS[0] if blank else NONBLANK_LOADS[0]
        return self.entry(self.run(d, list(stack), load, ch), ch)


def c_tables(fs):
    P = CProbe(fs)
    states = P.discover()
    cells = [(d, st, blank) for d in (False, True) for st in P.reach[d] for blank in (False, True)]
    chars = ASCII + EXTRA
    sig = {ch: tuple(P.cell(d, st, blank, ch) for d, st, blank in cells) for ch in chars}
    # partition of the ASCII characters by behaviour; class = smallest member
    reps = []
    for ch in ASCII:
        if not any(sig[r] == sig[ch] for r in reps):
            reps.append(ch)
    cls_of = {}
    for ch in chars:
        m = [i for i, r in enumerate(reps) if sig[r] == sig[ch]]
        if not m:
            raise Unsupported(f"U+{ord(ch):04X} behaves like no ASCII character")
        cls_of[ch] = m[0]
    # ---- validations on the representatives
    for d, st, blank in cells:
        for ch in reps:
            base = P.cell(d, st, blank, ch)
            for load in (BLANK_LOADS if blank else NONBLANK_LOADS):
                if P.entry(P.run(d, list(st), load, ch), ch) != base:
                    raise Unsupported(f"process depends on more of the buffer than its category: {st} {ch!r} {load}")
    # no hidden per-call state: a two-character call = two one-character calls
    for d, st, blank in cells:
        load = BLANK_LOADS[0] if blank else NONBLANK_LOADS[0]
        for c1 in reps:
            if P.run(d, list(st), load, c1)[0] == "raise":
                continue
            for c2 in reps:
                both = P.run(d, list(st), load, c1 + c2)
                b = preload(P.Rec, *load)
                cl = fs.c_cleaner(b, d)
                cl.state = list(st)
                try:
                    cl.process(iter(c1))
                    cl.process(iter(c2))
                    two = (tuple(cl.state), tuple(b.log))
                except Unsupported:
                    raise
                except Exception:
                    two = ("raise",)
                if both != two:
                    raise Unsupported(f"process({c1 + c2!r}) differs from process({c1!r}); process({c2!r}) from {st}")
    step = {}
    for k, (d, st, blank) in enumerate(cells):
        for i, ch in enumerate(reps):
            step[(d, st, blank, i)] = sig[ch][k]
    # ---- logical_newline
    newline = {}
    for d in (False, True):
        for st in P.reach[d]:
            e = P.entry(P.newline(d, list(st), BLANK_LOADS[0]), None)
            for load in BLANK_LOADS + NONBLANK_LOADS:
                if P.entry(P.newline(d, list(st), load), None) != e:
                    raise Unsupported(f"logical_newline depends on the buffer: {st} {load}")
            newline[(d, st)] = e
    return P, states, reps, cls_of, step, newline


# --------------------------------------------------------------------------
# c_file_source: the per-line code around the cleaner
# --------------------------------------------------------------------------
def c_line_bodies(reps):
    """physical-line bodies (without the newline): empty, one character of every class, the same followed by
    a backslash (continuation detection; `\\\\` = an even number of backslashes)"""
    return [""] + list(reps) + [r + "\\" for r in reps]


def c_line_table(fs, P, reps):
    """For every reachable stack and every body: what `c_file_source` does with the physical line
    `body + "\n"` when the cleaner is in that stack at its start: (raises, stack afterwards, the line is
    counted, the logical line ends here, text of the physical line's buffer as joined to the logical line).
    `c_cleaner` and `line_info` are replaced by subclasses that start in the given stack / record calls."""
    obs = {}
    orig_cleaner, orig_info = fs.c_cleaner, fs.line_info

    class Cleaner(orig_cleaner):
        start = None
        last = None

        def __init__(self, outbuf, directives_only=False):
            orig_cleaner.__init__(self, outbuf, directives_only)
            self.state = list(Cleaner.start)
            Cleaner.last = self

    class Info(orig_info):
        log = []

        def join(self, other):
            Info.log.append(("join", tuple(other.parts), other.trailing_space))
            orig_info.join(self, other)

        def physical_update(self, n):
            Info.log.append(("update", n, tuple(self.lines), self.local_sloc))
            orig_info.physical_update(self, n)

    try:
        fs.c_cleaner, fs.line_info = Cleaner, Info
        for d in (False, True):
            for st in P.reach[d]:
                for body in c_line_bodies(reps):
                    Cleaner.start, Cleaner.last, Info.log = st, None, []
                    exc = None
                    try:
                        for _ in fs.c_file_source(iter([body + "\n"]), directives_only=d):
                            pass
                    except Exception as e:  # noqa
                        exc = e
                    joins = [x for x in Info.log if x[0] == "join"]
                    ups = [x for x in Info.log if x[0] == "update"]
                    if exc is not None and not (len(joins) == 1 and ups and "top level" in str(exc)):
                        obs[(d, st, body)] = (True, (), False, False, ())
                        continue
                    if len(joins) != 1 or len(ups) not in (1, 2) or Cleaner.last is None:
                        raise Unsupported(f"c_file_source: unexpected call pattern on one line: {Info.log}")
                    first = ups[0]
                    if first[2] not in ((), (1,)) or first[3] != len(first[2]):
                        raise Unsupported(f"c_file_source: lines / local_sloc after one line: {first}")
                    if first[1] != 2 or ups[-1][1] != 2:
                        raise Unsupported(f"c_file_source: physical_update({first[1]}) after line 1")
                    obs[(d, st, body)] = (False, tuple(P.ids(Cleaner.last.state)), first[2] == (1,), len(ups) == 2,
                                          tuple(ord(c) for c in "".join(joins[0][1])))
    finally:
        fs.c_cleaner, fs.line_info = orig_cleaner, orig_info
    return obs


def buffer_tables(fs, reps):
    """`one_space_line.category` on every part list of length <= 3 over {blank, TAB, '#', 'x', '/'} and
    `one_space_line.join` on small operands"""
    alpha = [" ", "\t", "#", "x"]
    cats = {"BLANK": 0, "SRC_NONBLANK": 1, "CPP_DIRECTIVE": 2}
    cat = []
    for n in range(4):
        for parts in itertools.product(alpha, repeat=n):
            b = fs.one_space_line()
            b.parts = list(parts)
            c = b.category()
            if c not in cats:
                raise Unsupported(f"category {c!r}")
            cat.append((tuple(ord(x) for x in parts), cats[c]))
    join = []
    small = [p for n in range(3) for p in itertools.product(alpha, repeat=n)]
    for p1 in small[:5]:
        for t1 in (False, True):
            for p2 in small:
                for t2 in (False, True):
                    a, b = fs.one_space_line(), fs.one_space_line()
                    a.parts, a.trailing_space = list(p1), t1
                    b.parts, b.trailing_space = list(p2), t2
                    a.join(b)
                    if (b.parts, b.trailing_space) != (list(p2), t2):
                        raise Unsupported("join modifies its argument")
                    join.append((tuple(map(ord, p1)), t1, tuple(map(ord, p2)), t2, tuple(map(ord, a.parts)), a.trailing_space))
    return cat, join


# --------------------------------------------------------------------------
# fortran_cleaner
# --------------------------------------------------------------------------
class Tagged(str):
    """a character that can be recognised by identity where it ends up (line buffer, `verify_continue`)"""


class FProbe:
    """`fortran_cleaner.process(line)` is the unit of execution (`dir_check` reads on from the same iterator).
    A cleaner configuration between two lines = (state stack, verify_continue)."""

    def __init__(self, fs):
        self.fs = fs
        self.Rec = recording_buffer(fs)
        self.states = []

    def run(self, start, line, load=([], False)):
        """-> ("raise",) or (stack names, verify_continue, effects) ; `line` is a list of characters"""
        b = preload(self.Rec, *load)
        cl = self.fs.fortran_cleaner(b)
        cl.state = list(start[0])
        cl.verify_continue = list(start[1])
        try:
            cl.process(iter(line))
        except Unsupported:
            raise
        except Exception:
            return ("raise",)
        check_replay(self.fs, b)
        if not (isinstance(cl.state, list) and all(isinstance(x, str) for x in cl.state)):
            raise Unsupported("fortran_cleaner.state is no longer a list of names")
        return (tuple(cl.state), tuple(cl.verify_continue), tuple(b.log))

    @staticmethod
    def abstract(r):
        """the probed (tagged) character becomes "cur" wherever it ended up"""
        if r[0] == "raise":
            return r
        t = lambda x: "cur" if isinstance(x, Tagged) else x  # noqa: E731
        return (r[0], tuple(t(x) for x in r[1]), tuple(e if e == "sp" else ("ns", t(e[1])) for e in r[2]))

    def init_state(self):
        cl = self.fs.fortran_cleaner(self.Rec())
        if not (isinstance(cl.state, list) and len(cl.state) == 1 and cl.verify_continue == []):
            raise Unsupported("initial fortran_cleaner state")
        return (tuple(cl.state), ())

    def closure(self, alpha, maxlen=3):
        """configurations reachable at a line start: closure under `process(line)` for all lines of length
        <= maxlen over `alpha`, breadth first"""
        seen = [self.init_state()]
        lines = [list(t) for n in range(maxlen + 1) for t in itertools.product(alpha, repeat=n)]
        i = 0
        while i < len(seen):
            for line in lines:
                r = self.run(seen[i], line)
                if r[0] != "raise" and (r[0], r[1]) not in seen:
                    seen.append((r[0], r[1]))
            i += 1
            if len(seen) > 60:
                raise Unsupported("more than 60 fortran_cleaner configurations at line starts")
        return seen

    def partition(self):
        """behaviour classes of the ASCII characters: c ~ c' iff for every reachable line-start configuration
        and all context lines p, q of length <= 1 over the class representatives, `process(p + c + q)` and
        `process(p + c' + q)` agree (c abstracted); representatives and configurations are refined together
        until nothing changes"""
        reps = ["a"]
        for _ in range(8):
            starts = self.closure(reps, 2)
            ctx = [[]] + [[r] for r in reps]
            sig = {}
            for ch in ASCII + EXTRA:
                sig[ch] = tuple(self.abstract(self.run(s0, p + [Tagged(ch)] + q)) for s0 in starts for p in ctx for q in ctx)
            new = []
            for ch in ASCII:
                if not any(sig[r] == sig[ch] for r in new):
                    new.append(ch)
            if new == reps:
                break
            reps = new
        else:
            raise Unsupported("the character partition of fortran_cleaner does not stabilise")
        cls_of = {}
        for ch in ASCII + EXTRA:
            m = [i for i, r in enumerate(reps) if sig[r] == sig[ch]]
            cls_of[ch] = m[0] if m else len(reps)  # a non-ASCII character that behaves like no ASCII one
        return reps, cls_of

    def number_states(self, starts):
        names = []
        for st, _ in starts:
            for n in st:
                if n not in names:
                    names.append(n)
        self.states = names

    def ids(self, names):
        try:
            return [self.states.index(n) for n in reversed(names)]
        except ValueError as e:
            raise Unsupported(f"state outside the discovered closure: {e}")


def f_lines(reps, silent):
    """all lines of length <= 2 over the class representatives, and the lines of length 3 that start with a
    representative that is consumed silently (opens a mode that is not visible in the buffer: `!`, `&`)"""
    return [list(t) for n in range(3) for t in itertools.product(reps, repeat=n)] + \
           [[a, b, c] for a in silent for b in reps for c in reps]


def f_tables(fs):
    P = FProbe(fs)
    reps, cls_of = P.partition()
    starts = P.closure(reps, 3)
    P.number_states(starts)
    silent = [r for r in reps if P.run(starts[0], [r]) not in (("raise",),) and P.run(starts[0], [r])[2] == ()]
    lines = f_lines(reps, silent)
    rows = {}
    for s0 in starts:
        for line in lines:
            r = P.run(s0, line)
            if r[0] == "raise":
                rows[(s0, "".join(line))] = (True, (), (), (), False)
                continue
            # the buffer as left by the real one_space_line
            b = preload(P.Rec, [], False)
            cl = fs.fortran_cleaner(b)
            cl.state, cl.verify_continue = list(s0[0]), list(s0[1])
            cl.process(iter(line))
            # any state name seen mid-closure must be numbered
            rows[(s0, "".join(line))] = (False, tuple(P.ids(r[0])), tuple(ord(c) for c in r[1]),
                                         tuple(ord(c) for c in b.parts), bool(b.trailing_space))
    # the buffer the line is cleaned into is always fresh in fortran_file_source; process must not depend on it
    for s0 in starts:
        for line in lines:
            base = P.run(s0, line)
            for load in NONBLANK_LOADS[:2] + BLANK_LOADS[1:]:
                if P.run(s0, line, load) != base:
                    raise Unsupported(f"fortran_cleaner.process depends on the buffer content: {s0} {line}")
    return P, reps, cls_of, starts, rows, silent


def f_lean(h, P, reps, cls_of, starts, rows, silent):
    chars = ASCII + EXTRA
    lines = ["".join(t) for t in f_lines(reps, silent)]

    def start_def(i, s0):
        es = ",\n   ".join(
            "({}, ({}, {}, {}, {}, {}))".format(lnat_list(map(ord, ln)), lb(e[0]), lnat_list(e[1]), lnat_list(e[2]),
                                                lnat_list(e[3]), lb(e[4]))
            for ln in lines for e in [rows[(s0, ln)]])
        return f"def lines{i} : List (List Nat × Entry) :=\n  [{es}]"

    def start_rows():
        return "[" + ",\n   ".join(f"(({lnat_list(P.ids(s0[0]))}, {lnat_list(map(ord, s0[1]))}), lines{i})"
                                   for i, s0 in enumerate(starts)) + "]"

    L = [
        "/-! GENERATED by tools/gen/cleaner.py by executing `fortran_cleaner.process` of /repo's working tree on every",
        "(reachable line-start configuration, line of <= 3 characters over the class representatives) — do not edit.",
        "No proofs here; `Props/C17Table.lean` compares the hand-written model with this table. -/",
        "namespace CbiVerif.Gen.FCleanTable\n",
        "/-- (raises, stack afterwards — state numbers, top first, `verify_continue` afterwards, parts of the line buffer,",
        "    its `trailing_space`); characters are code points -/",
        "abbrev Entry := Bool × List Nat × List Nat × List Nat × Bool\n",
        "/-- `fortran_cleaner` state names in discovery order (number = position); documentation only -/",
        "def stateNames : List String := " + h.llist(P.states),
        "/-- smallest member of every behaviour class of the ASCII characters, ascending -/",
        "def classReps : List Nat := " + lnat_list(ord(r) for r in reps),
        "/-- (code point, index of its class in `classReps`; = number of classes if it behaves like no ASCII character) -/",
        "def charClass : List (Nat × Nat) :=\n  [" + ", ".join(f"({ord(c)}, {cls_of[c]})" for c in chars) + "]",
        "/-- representatives whose one-character line writes nothing (they open a mode: comment / continuation) -/",
        "def silentReps : List Nat := " + lnat_list(ord(r) for r in silent),
        "/-- `process(line)` into a fresh buffer from one start configuration: `[(line, entry)]`; the lines are all lines of",
        "    length <= 2 over `classReps` and the lines of length 3 that start with a member of `silentReps` -/",
    ] + [start_def(i, s0) for i, s0 in enumerate(starts)] + [
        "/-- `((stack, verify_continue) at the start of the line, rows)` for every configuration reachable at a line start -/",
        "def lines : List ((List Nat × List Nat) × List (List Nat × Entry)) :=\n  " + start_rows(),
        "\nend CbiVerif.Gen.FCleanTable",
    ]
    return "\n".join(L) + "\n"


# --------------------------------------------------------------------------
# fortran_file_source: the loop around the cleaner
# --------------------------------------------------------------------------
class Feed:
    """the file object handed to `fortran_file_source`: an iterator over physical lines that reports every request
    for a line.  `c_file_source` asks for physical line j + 1 only after the Fortran loop has finished with the
    logical line that ended on line j, so the requests delimit the loop's iterations (validated in `LoopProbe.run`)."""

    def __init__(self, lines, on_request):
        self.lines = [ln + "\n" for ln in lines]
        self.i = 0
        self.on_request = on_request

    def __iter__(self):
        return self

    def __next__(self):
        self.on_request()
        if self.i >= len(self.lines):
            raise StopIteration
        self.i += 1
        return self.lines[self.i - 1]


FOLLOW = ["A", "\tA"]  # follow-up lines that reveal the pending logical line (its text, its `trailing_space`)


class LoopProbe:
    """Executes the real `fortran_file_source` on short texts.  Observed: the logical lines it yields — (lines,
    flushed_line, category is CPP_DIRECTIVE), snapshotted at the moment of the yield — attributed to the physical
    line during whose processing they were yielded, the cleaner configuration (state stack, verify_continue) between
    two physical lines (the loop's `fortran_cleaner` is a subclass that registers its instance; nothing else is
    patched), what is flushed at the end of the file and whether the end of the file raises."""

    def __init__(self, fs, FP):
        self.fs = fs
        self.FP = FP  # the FProbe whose state numbering is used
        self.cache = {}

    def c_lines(self, phys):
        """the logical lines the real C pass (`c_file_source(directives_only=True)`) yields for the text"""
        out = []
        try:
            for ll in self.fs.c_file_source(iter([ln + "\n" for ln in phys]), directives_only=True):
                out.append((tuple(ll.lines), ll.flushed_line, ll.category == "CPP_DIRECTIVE"))
        except Exception as e:  # noqa
            raise Unsupported(f"c_file_source(directives_only=True) raises on the probe text {phys!r}: {e}")
        return out

    def run(self, phys):
        """-> {"marks": [(number of yields so far, cleaner configuration or None)] one per request for a physical line,
               "yields": [...], "raised": bool}"""
        key = tuple(phys)
        if key in self.cache:
            return self.cache[key]
        fs = self.fs
        orig = fs.fortran_cleaner
        reg = []

        class Cleaner(orig):
            def __init__(self, *a, **kw):
                orig.__init__(self, *a, **kw)
                reg.append(self)

        yields, marks = [], []

        def on_request():
            if len(reg) > 1:
                raise Unsupported("fortran_file_source creates more than one fortran_cleaner")
            cfg = None
            if reg:
                cl = reg[0]
                if not (isinstance(cl.state, list) and all(isinstance(x, str) for x in cl.state)):
                    raise Unsupported("fortran_cleaner.state is no longer a list of names")
                cfg = (tuple(cl.state), tuple(cl.verify_continue))
            marks.append((len(yields), cfg))

        raised = False
        try:
            fs.fortran_cleaner = Cleaner
            g = fs.fortran_file_source(Feed(phys, on_request))
            try:
                for ll in g:
                    yields.append((tuple(ll.lines), ll.flushed_line, ll.category == "CPP_DIRECTIVE"))
            except Unsupported:
                raise
            except Exception:  # noqa
                raised = True
        finally:
            fs.fortran_cleaner = orig
        if not reg:
            raise Unsupported("fortran_file_source does not construct `fortran_cleaner`")
        for y in yields:
            if not (isinstance(y[1], str) and all(isinstance(n, int) for n in y[0])):
                raise Unsupported(f"fortran_file_source yields something unexpected: {y!r}")
        r = {"marks": marks, "yields": yields, "raised": raised}
        self.cache[key] = r
        return r

    def ids(self, cfg):
        return (tuple(self.FP.ids(cfg[0])), tuple(ord(c) for c in cfg[1]))

    def observe(self, pre, kind):
        """one probe: the physical lines `kind` after the prefix `pre`.
        -> (entry, successor key)   entry = (raises, yields during the probe's iteration(s), cleaner configuration
        afterwards, yields at the end of the file, the end of the file raises, yields after the probe when the line
        "A" follows, the same for the line TAB "A")"""
        n0, n1 = len(pre), len(pre) + len(kind)
        A = self.run(pre + kind)
        if len(A["marks"]) != n1 + 1:
            if A["raised"] and len(A["marks"]) <= n1:
                return (True, (), ((), ()), (), False, (), ()), None
            raise Unsupported(f"fortran_file_source does not read its input line by line ({len(A['marks'])} requests for {n1} lines)")
        P0 = self.run(pre)
        # the prefix behaves the same whatever follows (the loop does not look ahead)
        if A["marks"][: n0 + 1] != P0["marks"][: n0 + 1] or A["yields"][: A["marks"][n0][0]] != P0["yields"][: P0["marks"][n0][0]]:
            raise Unsupported(f"fortran_file_source looks ahead: the iterations on {pre!r} depend on the following lines {kind!r}")
        a, b = A["marks"][n0][0], A["marks"][n1][0]
        out = tuple(A["yields"][a:b])
        nxt = A["marks"][n1][1]
        if nxt is None:
            raise Unsupported("no fortran_cleaner when the first line is read")
        eof = tuple(A["yields"][b:])
        revs = []
        for f in FOLLOW:
            B = self.run(pre + kind + [f])
            if len(B["marks"]) != n1 + 2 or B["marks"][: n1 + 1] != A["marks"][: n1 + 1] or B["yields"][:b] != A["yields"][:b]:
                raise Unsupported(f"fortran_file_source looks ahead: {pre + kind!r} followed by {f!r}")
            revs.append(tuple(B["yields"][b:]))
        entry = (False, out, self.ids(nxt), eof, A["raised"], revs[0], revs[1])
        return entry, self.abstract(nxt, eof, revs)

    def abstract(self, nxt, eof, revs):
        """what the loop carries into the next iteration, as far as it can matter later: the cleaner configuration and of
        the pending logical line its category, whether it is empty, its `trailing_space` (decoded from what is flushed
        at the end of the file / after the follow-up lines; the raw observation if it cannot be decoded)"""
        if len(eof) > 1:
            return ("raw", nxt, eof, tuple(revs))
        if eof:
            p = eof[0][1]
        else:
            t = revs[0][0][1] if revs[0] else None
            if t is None or not t.endswith("A"):
                return ("raw", nxt, eof, tuple(revs))
            p = t[:-1]
        t2 = revs[1][0][1] if revs[1] else None
        if t2 == p + "A":
            trailing = True
        elif t2 == p + " A":
            trailing = False
        else:
            return ("raw", nxt, eof, tuple(revs))
        b = self.fs.one_space_line()
        b.parts = list(p)
        cat = {"BLANK": 0, "SRC_NONBLANK": 1, "CPP_DIRECTIVE": 2}.get(b.category())
        if cat is None:
            raise Unsupported("one_space_line.category")
        return (self.ids(nxt), cat, p == "", trailing)


def loop_shape(fs, e):
    """what `fortran_file_source` can see of the result of `process(line)`: the entry of the step table reduced to
    (raises, configuration afterwards, buffer empty, its category, first part is a blank, trailing_space)"""
    b = fs.one_space_line()
    b.parts = [chr(c) for c in e[3]]
    return (e[0], e[1], e[2], len(e[3]) == 0, b.category(), bool(e[3]) and e[3][0] == 32, e[4])


def loop_kinds(fs, P, reps, rows, s0, lines):
    """the physical-line kinds probed from a loop configuration whose cleaner configuration is `s0`: the first line of
    every class of the step table of `s0` (lines without a backslash that are not blank: the C pass in front handles
    those), then lines the C pass treats specially: directives (`#`, blank `#`, `#` behind `&` / behind text; `&#&` leaves a
    pending logical line that looks like a directive), a logical line of two physical lines, a blank line"""
    other, ws, amp = chr(0), "\t", "&"
    seen, out = set(), []
    for ln in lines:
        if "\\" in ln or all(c.isspace() for c in ln):
            continue
        k = loop_shape(fs, rows[(s0, ln)])
        if k not in seen:
            seen.add(k)
            out.append([ln])
    out += [["#"], [ws + "#"], ["#A"], [other + "#"], [amp + "#"], [amp + ws + "#"], [amp + "#" + amp], ["A\\", "A"], [""]]
    return out


def floop_tables(fs, FT):
    P, reps, cls_of, starts, rows, silent = FT
    lines = ["".join(t) for t in f_lines(reps, silent)]
    L = LoopProbe(fs, P)
    kinds = {}
    init = L.run([])
    if len(init["marks"]) != 1 or init["yields"] or init["raised"] or init["marks"][0][1] is None:
        raise Unsupported("fortran_file_source on the empty file")
    key0 = (L.ids(init["marks"][0][1]), 0, True, False)
    configs = [{"pre": [], "key": key0}]
    known = {key0}
    i = 0
    while i < len(configs):
        c = configs[i]
        if isinstance(c["key"][0], str):
            raise Unsupported(f"the pending logical line after {c['pre']!r} cannot be decoded: {c['key']!r}")
        cl = c["key"][0]
        s0 = (tuple(reversed([P.states[k] for k in cl[0]])), tuple(chr(x) for x in cl[1]))
        if s0 not in starts:
            raise Unsupported(f"the loop reaches a cleaner configuration outside the step table: {s0}")
        if s0 not in kinds:
            kinds[s0] = loop_kinds(fs, P, reps, rows, s0, lines)
        preC = L.c_lines(c["pre"])
        c["preC"] = preC
        c["s0"] = s0
        c["rows"] = []
        for kind in kinds[s0]:
            allC = L.c_lines(c["pre"] + kind)
            if allC[: len(preC)] != preC:
                raise Unsupported("c_file_source looks ahead")
            n1 = len(c["pre"]) + len(kind)
            for f, ft in zip(FOLLOW, ("A", " A")):
                if L.c_lines(c["pre"] + kind + [f]) != allC + [((n1 + 1,), ft, False)]:
                    raise Unsupported(f"the C pass on the follow-up line {f!r}")
            entry, nk = L.observe(c["pre"], kind)
            c["rows"].append((kind, allC[len(preC):], entry))
            if nk is not None and nk not in known:
                known.add(nk)
                configs.append({"pre": c["pre"] + kind, "key": nk})
                if len(configs) > 80 or len(c["pre"]) > 8:
                    raise Unsupported("more than 80 loop configurations")
        i += 1
    return {"P": P, "configs": configs, "kinds": kinds, "starts": starts}


def floop_lean(h, T):
    P = T["P"]

    def pts(xs):
        return lnat_list(ord(c) for c in xs)

    def ly(y):
        return f"({lnat_list(y[0])}, {pts(y[1])}, {lb(y[2])})"

    def lys(ys):
        return "[" + ", ".join(ly(y) for y in ys) + "]"

    def lcfg(c):
        return f"({lnat_list(c[0])}, {lnat_list(c[1])})"

    def lkey(k):
        return f"({lcfg(k[0])}, {k[1]}, {lb(k[2])}, {lb(k[3])})"

    def lphys(ls):
        return "[" + ", ".join(pts(x) for x in ls) + "]"

    def lentry(e):
        return f"({lb(e[0])}, {lys(e[1])}, {lcfg(e[2])}, {lys(e[3])}, {lb(e[4])}, {lys(e[5])}, {lys(e[6])})"

    L = [
        "/-! GENERATED by tools/gen/cleaner.py by executing `fortran_file_source` of /repo's working tree from every reachable",
        "loop configuration on every physical-line kind — do not edit.  No proofs here; `Props/C17Loop.lean` compares the",
        "hand-written model of the loop (`Model/FSource.lean`, `Model/FLoopCells.lean`) with this table. -/",
        "namespace CbiVerif.Gen.FLoopTable\n",
        "/-- a logical line as yielded: (`lines`, `flushed_line` as code points, `category == \"CPP_DIRECTIVE\"`) -/",
        "abbrev Y := List Nat × List Nat × Bool",
        "/-- a cleaner configuration: (state stack as numbers of `FCleanTable.stateNames`, top first, `verify_continue`) -/",
        "abbrev K := List Nat × List Nat",
        "/-- what the loop carries into its next iteration: (cleaner configuration, category of the pending logical line",
        "    (0 BLANK, 1 SRC_NONBLANK, 2 CPP_DIRECTIVE), it is empty, its `trailing_space`) -/",
        "abbrev Key := K × Nat × Bool × Bool",
        "/-- one probe: (an exception escapes the iteration, logical lines yielded while the probe's physical lines are",
        "    processed, cleaner configuration afterwards, logical lines yielded when the file ends there, the end of the file",
        "    raises, logical lines yielded after the probe when the line `A` follows (end of file included), the same for",
        "    the line TAB `A`) -/",
        "abbrev Entry := Bool × List Y × K × List Y × Bool × List Y × List Y\n",
        "/-- the physical-line kinds (lists of physical lines, code points) probed for a cleaner configuration -/",
        "def kinds : List (K × List (List (List Nat))) :=\n  ["
        + ",\n   ".join(f"({lcfg((P.ids(s0[0]), [ord(c) for c in s0[1]]))}, [" + ", ".join(lphys(k) for k in ks) + "])"
                        for s0, ks in T["kinds"].items()) + "]",
    ]
    for i, c in enumerate(T["configs"]):
        rows = ",\n   ".join(f"({lphys(kind)}, {lys(cs)}, {lentry(e)})" for kind, cs, e in c["rows"])
        L.append("/-- after the physical lines " + repr(c["pre"]).replace("-/", "- /") + " -/")
        L.append(f"def rows{i} : List (List (List Nat) × List Y × Entry) :=\n  [{rows}]")
    L += [
        "/-- `((physical lines that lead to the configuration, the logical lines the C pass yields for them, the configuration),",
        "    [(probe: physical lines, the logical lines the C pass yields for them, observation)])` -/",
        "def configs : List ((List (List Nat) × List Y × Key) × List (List (List Nat) × List Y × Entry)) :=\n  ["
        + ",\n   ".join(f"(({lphys(c['pre'])}, {lys(c['preC'])}, {lkey(c['key'])}), rows{i})" for i, c in enumerate(T["configs"])) + "]",
        "\nend CbiVerif.Gen.FLoopTable",
    ]
    return "\n".join(L) + "\n"


# --------------------------------------------------------------------------
# Lean output helpers
# --------------------------------------------------------------------------
def lb(b):
    return "true" if b else "false"


def lnat_list(xs):
    return "[" + ", ".join(str(int(x)) for x in xs) + "]"


def lentry(e):
    return f"({'true' if e[0] else 'false'}, {lnat_list(e[1])}, {lnat_list(e[2])})"


def nested(x, depth, indent=2):
    if depth == 0:
        return x
    pad = " " * indent
    if depth == 1:
        return "[" + ", ".join(x) + "]"
    return "[\n" + ",\n".join(pad + nested(y, depth - 1, indent + 1) for y in x) + "]"


def c_lean(h, P, states, reps, cls_of, step, newline, line_tab):
    def stack_rows(d):
        rows = []
        for st in P.reach[d]:
            es = nested([[lentry(step[(d, st, blank, i)]) for i in range(len(reps))] for blank in (False, True)], 2, 6)
            rows.append(f"({lnat_list(P.ids(st))}, {es})")
        return "[\n    " + ",\n    ".join(rows) + "]"

    def nl_rows(d):
        return "[" + ",\n    ".join(f"({lnat_list(P.ids(st))}, {lentry(newline[(d, st)])})" for st in P.reach[d]) + "]"

    chars = ASCII + EXTRA
    L = [
        "/-! GENERATED by tools/gen/cleaner.py by executing `c_cleaner` / `c_file_source` of /repo's working tree",
        "on every (reachable state, character) cell — do not edit.  No proofs here; `Props/C05Table.lean` and",
        "`Props/C17Table.lean` compare the hand-written models with these tables. -/",
        "namespace CbiVerif.Gen.CCleanTable\n",
        "/-- (raises, successor stack as state numbers — top first, effects on the line buffer:",
        "    0 = a blank is merged in, 1 = the current character is appended, 2 = a literal `/` is appended) -/",
        "abbrev Entry := Bool × List Nat × List Nat\n",
        "/-- `c_cleaner` state names in discovery order (number = position); documentation only -/",
        "def stateNames : List String := " + h.llist(states),
        "/-- smallest member of every behaviour class of the ASCII characters, ascending -/",
        "def classReps : List Nat := " + lnat_list(ord(r) for r in reps),
        "/-- (code point, index of its class in `classReps`) for every ASCII character and some others -/",
        "def charClass : List (Nat × Nat) :=\n  [" + ", ".join(f"({ord(c)}, {cls_of[c]})" for c in chars) + "]",
        "/-- `c_cleaner.process` on one character, for every stack reachable from the initial one (top first):",
        "    `(stack, entries[buffer is BLANK][class])`, `directives_only = False` -/",
        "def step : List (List Nat × List (List Entry)) :=\n  " + stack_rows(False),
        "/-- the same with `directives_only = True` (the C pass in front of the Fortran cleaner) -/",
        "def stepD : List (List Nat × List (List Entry)) :=\n  " + stack_rows(True),
        "/-- `c_cleaner.logical_newline` on every reachable stack (no current character: effect 1 cannot occur) -/",
        "def newline : List (List Nat × Entry) :=\n  " + nl_rows(False),
        "def newlineD : List (List Nat × Entry) :=\n  " + nl_rows(True),
    ]
    L += line_tab
    L.append("\nend CbiVerif.Gen.CCleanTable")
    return "\n".join(L) + "\n"


def c_line_lean(P, reps, obs, cat, join):
    def rows(d):
        out = []
        for st in P.reach[d]:
            es = ",\n      ".join(
                f"({lnat_list(map(ord, body))}, ({lb(e[0])}, {lnat_list(e[1])}, {lb(e[2])}, {lb(e[3])}, {lnat_list(e[4])}))"
                for body in c_line_bodies(reps) for e in [obs[(d, st, body)]])
            out.append(f"({lnat_list(P.ids(st))}, [\n      {es}])")
        return "[\n    " + ",\n    ".join(out) + "]"

    return [
        "/-- (raises, stack afterwards, the physical line is counted, the logical line ends, text of the line's buffer) -/",
        "abbrev LineEntry := Bool × List Nat × Bool × Bool × List Nat\n",
        "/-- `c_file_source` on ONE physical line `body ++ \"\\n\"` with the cleaner in the given stack at its start:",
        "    `(stack, [(body as code points, entry)])` — continuation detection, `process`, `logical_newline`, the BLANK test,",
        "    the end of the logical line -/",
        "def lines : List (List Nat × List (List Nat × LineEntry)) :=\n  " + rows(False),
        "def linesD : List (List Nat × List (List Nat × LineEntry)) :=\n  " + rows(True),
        "/-- `one_space_line.category` (0 BLANK, 1 SRC_NONBLANK, 2 CPP_DIRECTIVE) of part lists (code points) -/",
        "def category : List (List Nat × Nat) :=\n  [" + ", ".join(f"({lnat_list(p)}, {c})" for p, c in cat) + "]",
        "/-- `one_space_line.join`: (parts, trailing_space) of self, of other ↦ of the result -/",
        "def join : List (List Nat × Bool × List Nat × Bool × List Nat × Bool) :=\n  ["
        + ",\n   ".join(f"({lnat_list(a)}, {lb(b)}, {lnat_list(c)}, {lb(d)}, {lnat_list(e)}, {lb(f)})" for a, b, c, d, e, f in join) + "]",
    ]


CACHE = Path(__file__).resolve().parent / ".cleaner_cache.json"


def _cache_key(repo):
    """the classes executed here use nothing but builtins and itertools, so their behaviour is a function of the
    text of file_source.py (and of this script and the interpreter); `VERIF_NO_GEN_CACHE=1` forces re-execution"""
    import hashlib

    hsh = hashlib.sha256()
    for f in (Path(repo) / "codebasin" / "file_source.py", Path(__file__)):
        hsh.update(f.read_bytes())
        hsh.update(b"\0")
    hsh.update(sys.version.encode())
    return hsh.hexdigest()


def generate(repo, h):
    import json
    import os

    key = _cache_key(repo)
    if not os.environ.get("VERIF_NO_GEN_CACHE") and CACHE.exists():
        try:
            c = json.loads(CACHE.read_text())
            if c.get("key") == key:
                return c["out"]
        except (ValueError, KeyError):
            pass
    fs = load_file_source(repo)
    src = (Path(repo) / "codebasin" / "file_source.py").resolve()
    if Path(fs.__file__).resolve() != src:
        raise Unsupported(f"executing {fs.__file__}, not {src}")
    P, states, reps, cls_of, step, newline = c_tables(fs)
    obs = c_line_table(fs, P, reps)
    cat, join = buffer_tables(fs, reps)
    out = {"CCleanTable.lean": c_lean(h, P, states, reps, cls_of, step, newline, c_line_lean(P, reps, obs, cat, join))}
    FT = f_tables(fs)
    out["FCleanTable.lean"] = f_lean(h, *FT)
    out["FLoopTable.lean"] = floop_lean(h, floop_tables(fs, FT))
    try:
        CACHE.write_text(json.dumps({"key": key, "out": out}))
    except OSError:
        pass
    return out


def c_data(repo):
    """the C tables as plain data (used by the harness to diff against the model's cells)"""
    fs = load_file_source(repo)
    P, states, reps, cls_of, step, newline = c_tables(fs)
    obs = c_line_table(fs, P, reps)
    return {"fs": fs, "P": P, "states": states, "reps": reps, "cls_of": cls_of, "step": step, "newline": newline,
            "lines": obs, "bodies": c_line_bodies(reps)}


def f_data(repo):
    """the Fortran tables (and the directives-only C tables) as plain data, for the harness' diff"""
    fs = load_file_source(repo)
    P, reps, cls_of, starts, rows, silent = f_tables(fs)
    CP, cstates, creps, ccls_of, cstep, cnewline = c_tables(fs)
    return {"fs": fs, "P": P, "reps": reps, "cls_of": cls_of, "starts": starts, "rows": rows, "silent": silent,
            "lines": ["".join(t) for t in f_lines(reps, silent)],
            "c": {"P": CP, "reps": creps, "cls_of": ccls_of, "step": cstep, "newline": cnewline}}


def loop_data(repo):
    """the loop table of `fortran_file_source` as plain data, for the harness' diff"""
    fs = load_file_source(repo)
    return floop_tables(fs, f_tables(fs))
