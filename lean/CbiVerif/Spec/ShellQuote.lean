/-! C11 — the `command` string form of an argument vector: POSIX shell quoting as produced by
`shlex.quote` / `shlex.join` (what compilation-database writers emit): an argument made of safe
characters only is left alone; anything else is wrapped in single quotes with every embedded
single quote written as `'"'"'`; the empty argument is `''`; arguments are joined by one blank. -/
namespace CbiVerif.ShellQuote

abbrev Arg := List Char

/-- the safe set of `shlex.quote`: ASCII letters, digits and `_ @ % + = : , . / -` (minus last) -/
def isSafe (c : Char) : Bool :=
  ('a' ≤ c && c ≤ 'z') || ('A' ≤ c && c ≤ 'Z') || ('0' ≤ c && c ≤ '9') ||
  c = '_' || c = '@' || c = '%' || c = '+' || c = '=' || c = ':' || c = ',' || c = '.' || c = '/' || c = '-'

/-- `s.replace("'", "'\"'\"'")` -/
def quoteBody : Arg → List Char
  | [] => []
  | c :: cs => if c = '\'' then '\'' :: '"' :: '\'' :: '"' :: '\'' :: quoteBody cs else c :: quoteBody cs

/-- `shlex.quote` -/
def shellQuote (s : Arg) : List Char :=
  if s.isEmpty then ['\'', '\'']
  else if s.all isSafe then s
  else '\'' :: (quoteBody s ++ ['\''])

/-- `shlex.join` -/
def shellJoin : List Arg → List Char
  | [] => []
  | [a] => shellQuote a
  | a :: rest => shellQuote a ++ ' ' :: shellJoin rest

end CbiVerif.ShellQuote
