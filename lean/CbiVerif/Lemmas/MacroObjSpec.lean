import CbiVerif.Lemmas.MacroObjTop
import CbiVerif.Spec.Prosser
/-! # C03, object-like fragment: the recursive reference `E` (which `MX.cbiExpand` computes, `expandWith_obj`) agrees with the
    specification `Spec.Prosser.expand` (Prosser's hide-set algorithm) on tables of object-like macros without `##`
    and without `defined` (any identifier, `None` included: finding D35 is repaired). -/
namespace CbiVerif.MX
open CbiVerif.PP
open CbiVerif.Spec.Prosser (T K Macros Unspec)

def kindOf (k : TKind) : K :=
  match k with
  | .ident => .id | .num => .num | .str => .str | .chr => .chr | _ => .punct

/-- a model token as a specification token with hide set `hs` -/
def toSpec (hs : List String) (t : Tok) : T := ⟨kindOf t.kind, spellTok t, t.pw, hs⟩

/-- the specification's table for a table of object-like macros -/
def specTable (tbl : Table) : Macros :=
  tbl.map fun e => ⟨e.1, none, false, e.2.replacement.map (toSpec [])⟩

/-- tokens the comparison is about: not yet painted, no `##` operator, not the identifier `defined` -/
def PlainTok (t : Tok) : Prop :=
  t.expandable = true ∧ t.text ≠ "##" ∧ (t.kind = .ident → t.text ≠ "defined")

structure PlainTbl (tbl : Table) : Prop where
  ok : TblOK tbl
  plain : ∀ n m, tbl.get n = some m → ∀ t ∈ m.replacement, PlainTok t

/-! ### helper lemmas -/
theorem spellTok_ident (t : Tok) (h : t.kind = .ident) : spellTok t = t.text := by simp [spellTok, h]

theorem spellTok_paint (t : Tok) : spellTok (paint t) = spellTok t := rfl

theorem kindOf_id (k : TKind) : (kindOf k == K.id) = (k == TKind.ident) := by cases k <;> decide

theorem specTable_get_none (tbl : Table) (n : String) (h : tbl.get n = none) : Macros.get (specTable tbl) n = none := by
  induction tbl with
  | nil => simp [specTable, Macros.get]
  | cons e tbl ih =>
    unfold Table.get at h ih
    unfold Macros.get specTable at ih ⊢
    simp only [List.find?_cons, List.map_cons] at h ⊢
    by_cases he : (e.1 == n) = true
    · simp [he] at h
    · have he' : (e.1 == n) = false := by simpa using he
      simp only [he'] at h ⊢
      exact ih h

theorem specTable_get_some (tbl : Table) (n : String) (m : Macro) (h : tbl.get n = some m) :
    ∃ sm, Macros.get (specTable tbl) n = some sm ∧ sm.params = none ∧ sm.body = m.replacement.map (toSpec []) := by
  induction tbl with
  | nil => simp [Table.get] at h
  | cons e tbl ih =>
    unfold Table.get at h ih
    unfold Macros.get specTable at ih ⊢
    simp only [List.find?_cons, List.map_cons] at h ⊢
    by_cases he : (e.1 == n) = true
    · simp only [he, Option.map_some, Option.some.injEq] at h
      subst h
      exact ⟨⟨e.1, none, false, e.2.replacement.map (toSpec [])⟩, by simp only [he], rfl, rfl⟩
    · have he' : (e.1 == n) = false := by simpa using he
      simp only [he'] at h ⊢
      exact ih h

/-- an object-like body without `##` is substituted by itself -/
theorem subst_plain (ex : List T → Except Unspec (List T)) (args : List (List T)) :
    ∀ (body : List T) (fuel : Nat) (os : List T) (pm : Bool), (∀ t ∈ body, Spec.Prosser.isP t "##" = false) → body.length < fuel →
      Spec.Prosser.subst ex none args fuel body os pm = .ok (os ++ body) := by
  intro body
  induction body with
  | nil =>
    intro fuel os pm _ hl
    obtain ⟨f, rfl⟩ : ∃ f, fuel = f + 1 := ⟨fuel - 1, by simp at hl; omega⟩
    simp [Spec.Prosser.subst]
  | cons t body ih =>
    intro fuel os pm hp hl
    obtain ⟨f, rfl⟩ : ∃ f, fuel = f + 1 := ⟨fuel - 1, by simp at hl; omega⟩
    have ht := hp t (by simp)
    have := ih f (os ++ [t]) false (fun x hx => hp x (by simp [hx])) (by simp at hl; omega)
    simp [Spec.Prosser.subst, ht, Spec.Prosser.pidx, this]

theorem isP_toSpec (hs : List String) (t : Tok) (h : t.text ≠ "##") : Spec.Prosser.isP (toSpec hs t) "##" = false := by
  cases t with
  | mk k tx pw ex =>
    cases k <;> simp_all [Spec.Prosser.isP, toSpec, kindOf, spellTok]

theorem union_nil_left (h : List String) : Spec.Prosser.union [] h = h := by
  simp [Spec.Prosser.union]

theorem rep_eq (r : List Tok) (hs' : List String) (pw : Bool) :
    Spec.Prosser.setWs ((r.map (toSpec [])).map fun x => { x with hs := Spec.Prosser.union x.hs hs' }) pw
      = (fixpw r pw).map (toSpec hs') := by
  cases r with
  | nil => simp [Spec.Prosser.setWs, fixpw]
  | cons a r =>
    simp only [Spec.Prosser.setWs, fixpw, List.map_cons, List.map_map]
    congr 1
    · simp [toSpec, union_nil_left, spellTok]
    · apply List.map_congr_left
      intro x _
      simp [toSpec, union_nil_left]

def Agree (D : NoExp) (hs : List String) : Prop := ∀ x, D.contains (some x) = hs.contains x

theorem union_contains (hs : List String) (n x : String) :
    (Spec.Prosser.union hs [n]).contains x = (hs.contains x || x == n) := by
  rw [Bool.eq_iff_iff]
  by_cases hx : x ∈ hs <;> simp [Spec.Prosser.union, hx]

theorem agree_step (D : NoExp) (hs : List String) (n : String) (h : Agree D hs) : Agree (some n :: D) (Spec.Prosser.union hs [n]) := by
  intro x
  rw [List.contains_cons, union_contains, h x, Bool.or_comm]
  simp

theorem plain_fixpw (r : List Tok) (pw : Bool) (h : ∀ t ∈ r, PlainTok t) : ∀ t ∈ fixpw r pw, PlainTok t := by
  cases r with
  | nil => simp [fixpw]
  | cons f rest =>
    intro t ht
    simp only [fixpw, List.mem_cons] at ht
    rcases ht with rfl | ht
    · exact h f (by simp)
    · exact h t (by simp [ht])

/-! one iteration of the specification's loop -/
theorem step_copy (ms : Macros) (f : Nat) (top : Bool) (t : T) (ts out : List T)
    (h1 : Spec.Prosser.isDefinedTok t = false) (h2 : (t.kind != K.id || t.hs.contains t.text) = true) :
    Spec.Prosser.expand ms (f + 1) top (t :: ts) out = Spec.Prosser.expand ms f top ts (out ++ [t]) := by
  simp only [Spec.Prosser.expand, h1, Bool.false_eq_true, if_false, h2, if_true]

theorem step_nomacro (ms : Macros) (f : Nat) (top : Bool) (t : T) (ts out : List T)
    (h1 : Spec.Prosser.isDefinedTok t = false) (h2 : (t.kind != K.id || t.hs.contains t.text) = false)
    (h3 : ms.get t.text = none) :
    Spec.Prosser.expand ms (f + 1) top (t :: ts) out = Spec.Prosser.expand ms f top ts (out ++ [t]) := by
  simp only [Spec.Prosser.expand, h1, Bool.false_eq_true, if_false, h2, h3]

theorem step_macro (ms : Macros) (f : Nat) (top : Bool) (t : T) (ts out : List T) (m : Spec.Prosser.Macro)
    (h1 : Spec.Prosser.isDefinedTok t = false) (h2 : (t.kind != K.id || t.hs.contains t.text) = false)
    (h3 : ms.get t.text = some m) (h4 : m.params = none) (h5 : ∀ x ∈ m.body, Spec.Prosser.isP x "##" = false) :
    Spec.Prosser.expand ms (f + 1) top (t :: ts) out
      = Spec.Prosser.expand ms f top
          (Spec.Prosser.setWs (m.body.map fun x => { x with hs := Spec.Prosser.union x.hs (Spec.Prosser.union t.hs [t.text]) }) t.ws ++ ts) out := by
  simp only [Spec.Prosser.expand, h1, Bool.false_eq_true, if_false, h2, h3, h4]
  rw [subst_plain _ _ m.body _ [] false h5 (Nat.lt_succ_self _)]
  simp

/-- the specification's loop, started on the image of `ts` (hide set `hs` ~ disabled names `D`), consumes it in `c`
    iterations and appends tokens spelled like `E tbl d D ts` to its output -/
theorem spec_sim (tbl : Table) (hT : PlainTbl tbl) (B : Nat) (hB : BodiesLe tbl B) :
    ∀ (d : Nat) (D : NoExp) (ts : List Tok) (hs : List String), Agree D hs → (∀ t ∈ ts, PlainTok t) → Fits tbl d D ts →
    ∃ (c : Nat) (R : List T), c ≤ ts.length * Cb B d ∧ R.map (·.text) = (E tbl d D ts).map spellTok ∧
      ∀ (f : Nat) (rest out : List T),
        Spec.Prosser.expand (specTable tbl) (f + c) true (ts.map (toSpec hs) ++ rest) out
          = Spec.Prosser.expand (specTable tbl) f true rest (out ++ R) := by
  intro d
  induction d with
  | zero =>
    intro D ts hs _ _ hf
    cases ts with
    | nil => exact ⟨0, [], by simp, by simp [E], by intro f rest out; simp⟩
    | cons a as => simp [Fits] at hf
  | succ d ihd =>
    intro D ts
    induction ts with
    | nil => intro hs _ _ _; exact ⟨0, [], by simp, by simp [E], by intro f rest out; simp⟩
    | cons a as iha =>
      intro hs hag hpl hf
      have hC := Cb_pos B (d + 1)
      have hmul : (as.length + 1) * Cb B (d + 1) = as.length * Cb B (d + 1) + Cb B (d + 1) := Nat.succ_mul _ _
      have hpl' : ∀ t ∈ as, PlainTok t := fun x hx => hpl x (by simp [hx])
      obtain ⟨hexp, hnp, hid⟩ := hpl a (by simp)
      simp only [Fits] at hf
      obtain ⟨hf1, hf2⟩ := hf
      obtain ⟨c2, R2, hc2, hR2, hx2⟩ := iha hs hag hpl' hf1
      -- a token that is copied
      have advance : ∀ a' : Tok, spellTok a' = spellTok a → E tbl (d + 1) D (a :: as) = a' :: E tbl (d + 1) D as →
          (∀ (f : Nat) (rest out : List T),
            Spec.Prosser.expand (specTable tbl) (f + 1) true (toSpec hs a :: (as.map (toSpec hs) ++ rest)) out
              = Spec.Prosser.expand (specTable tbl) f true (as.map (toSpec hs) ++ rest) (out ++ [toSpec hs a])) →
          ∃ (c : Nat) (R : List T), c ≤ (a :: as).length * Cb B (d + 1) ∧
            R.map (·.text) = (E tbl (d + 1) D (a :: as)).map spellTok ∧
            ∀ (f : Nat) (rest out : List T),
              Spec.Prosser.expand (specTable tbl) (f + c) true ((a :: as).map (toSpec hs) ++ rest) out
                = Spec.Prosser.expand (specTable tbl) f true rest (out ++ R) := by
        intro a' hsp hE hstep
        refine ⟨c2 + 1, toSpec hs a :: R2, by simp only [List.length_cons]; omega, ?_, ?_⟩
        · rw [hE]; simp only [List.map_cons, hR2, hsp]; rfl
        · intro f rest out
          have e : f + (c2 + 1) = (f + c2) + 1 := by omega
          rw [e]
          simp only [List.map_cons, List.cons_append]
          rw [hstep, hx2]
          simp
      by_cases hk : (a.kind != TKind.ident) = true
      · apply advance a rfl
        · rw [E]; simp only [hk, if_true]
        · intro f rest out
          apply step_copy
          · simp [Spec.Prosser.isDefinedTok, toSpec, kindOf_id]
            intro h; simp [h] at hk
          · have : (kindOf a.kind != K.id) = true := by
              have := kindOf_id a.kind
              simp only [bne, this] at hk ⊢; exact hk
            simp [toSpec, this]
      · have hk' : (a.kind != TKind.ident) = false := by simpa using hk
        have hki : a.kind = .ident := by simpa using hk
        have hsp : spellTok a = a.text := spellTok_ident a hki
        have hndef := hid hki
        have hdef : Spec.Prosser.isDefinedTok (toSpec hs a) = false := by
          simp [Spec.Prosser.isDefinedTok, toSpec, hsp, hndef]
        have hkid : (kindOf a.kind != K.id) = false := by simp [hki, kindOf]
        have hcont : D.contains (some a.text) = hs.contains a.text := hag _
        by_cases hq : (!a.expandable || D.contains (some a.text)) = true
        · apply advance (paint a) (spellTok_paint a)
          · rw [E]; simp only [hk', Bool.false_eq_true, if_false, hq, if_true]
          · intro f rest out
            apply step_copy _ _ _ _ _ _ hdef
            have : hs.contains a.text = true := by
              rw [← hcont]; simpa [hexp] using hq
            show (kindOf a.kind != K.id || hs.contains (spellTok a)) = true
            rw [hsp, this]; simp
        · have hq' : (!a.expandable || D.contains (some a.text)) = false := by simpa using hq
          have hnc : hs.contains a.text = false := by
            rw [← hcont]; simpa [hexp] using hq'
          have hcond : ((toSpec hs a).kind != K.id || (toSpec hs a).hs.contains (toSpec hs a).text) = false := by
            show (kindOf a.kind != K.id || hs.contains (spellTok a)) = false
            rw [hsp, hkid, hnc]; rfl
          cases hm : tbl.get a.text with
          | none =>
            apply advance a rfl
            · rw [E]; simp only [hk', Bool.false_eq_true, if_false, hq', hm]
            · intro f rest out
              apply step_nomacro _ _ _ _ _ _ hdef hcond
              show Macros.get (specTable tbl) (spellTok a) = none
              rw [hsp]; exact specTable_get_none tbl _ hm
          | some m =>
            have hname := hT.ok.named _ _ hm
            have hbp := hT.plain _ _ hm
            have hfit := hf2 hki hq' m hm
            obtain ⟨sm, hget, hpar, hbody⟩ := specTable_get_some tbl _ m hm
            have hE : E tbl (d + 1) D (a :: as)
                = E tbl d (some m.name :: D) (fixpw m.replacement a.pw) ++ E tbl (d + 1) D as := by
              rw [E]; simp only [hk', Bool.false_eq_true, if_false, hq', hm]
            have hag' : Agree (some m.name :: D) (Spec.Prosser.union hs [a.text]) := by
              rw [hname]; exact agree_step D hs a.text hag
            obtain ⟨c1, R1, hc1, hR1, hx1⟩ := ihd (some m.name :: D) (fixpw m.replacement a.pw) (Spec.Prosser.union hs [a.text]) hag'
              (plain_fixpw _ _ hbp) hfit
            have hstep : ∀ (f : Nat) (rest out : List T),
                Spec.Prosser.expand (specTable tbl) (f + 1) true (toSpec hs a :: (as.map (toSpec hs) ++ rest)) out
                  = Spec.Prosser.expand (specTable tbl) f true
                      ((fixpw m.replacement a.pw).map (toSpec (Spec.Prosser.union hs [a.text])) ++ (as.map (toSpec hs) ++ rest)) out := by
              intro f rest out
              have hget' : Macros.get (specTable tbl) (toSpec hs a).text = some sm := by
                show Macros.get (specTable tbl) (spellTok a) = some sm
                rw [hsp]; exact hget
              have h5 : ∀ x ∈ sm.body, Spec.Prosser.isP x "##" = false := by
                rw [hbody]
                intro x hx
                obtain ⟨y, hy, rfl⟩ := List.mem_map.mp hx
                exact isP_toSpec [] y (hbp y hy).2.1
              rw [step_macro _ _ _ _ _ _ sm hdef hcond hget' hpar h5, hbody]
              have e1 : (toSpec hs a).hs = hs := rfl
              have e2 : (toSpec hs a).text = a.text := hsp
              have e3 : (toSpec hs a).ws = a.pw := rfl
              rw [e1, e2, e3, rep_eq]
            have hk1' : c1 ≤ B * Cb B d := by
              rw [fixpw_length] at hc1
              exact Nat.le_trans hc1 (Nat.mul_le_mul_right _ (hB _ _ hm))
            have hCb : Cb B (d + 1) = B * Cb B d + B * Lb B d + 3 := rfl
            refine ⟨c2 + c1 + 1, R1 ++ R2, by simp only [List.length_cons]; omega, ?_, ?_⟩
            · rw [hE]; simp only [List.map_append, hR1, hR2]
            · intro f rest out
              have e : f + (c2 + c1 + 1) = ((f + c2) + c1) + 1 := by omega
              rw [e]
              simp only [List.map_cons, List.cons_append]
              rw [hstep, hx1, hx2]
              simp

/-- **object-like tables: reference `E` = specification** (spellings).  `c` bounds the number of iterations of the
    specification's loop; `Spec.Prosser.defaultFuel` must exceed it. -/
theorem E_eq_prosser (tbl : Table) (hT : PlainTbl tbl) (ts : List Tok) (hts : ∀ t ∈ ts, PlainTok t)
    (hfuel : ts.length * Cb (bodyMax tbl) (tbl.length + 1) < CbiVerif.Spec.Prosser.defaultFuel) :
    ∃ out, CbiVerif.Spec.Prosser.prosserToks (specTable tbl) (ts.map (toSpec [])) = .ok out ∧
      out.map (·.text) = (E tbl (tbl.length + 1) [] ts).map spellTok := by
  have hag : Agree [] [] := by
    intro x
    simp
  obtain ⟨c, R, hc, hR, hx⟩ := spec_sim tbl hT (bodyMax tbl) (bodiesLe_bodyMax tbl) (tbl.length + 1) [] ts [] hag hts
    (fits_top tbl hT.ok _ _)
  refine ⟨R, ?_, hR⟩
  obtain ⟨g, hg⟩ : ∃ g, CbiVerif.Spec.Prosser.defaultFuel = (g + 1) + c :=
    ⟨CbiVerif.Spec.Prosser.defaultFuel - c - 1, by omega⟩
  have := hx (g + 1) [] []
  simp only [List.append_nil, List.nil_append] at this
  unfold CbiVerif.Spec.Prosser.prosserToks
  rw [hg, this]
  simp [Spec.Prosser.expand]

end CbiVerif.MX
