import CbiVerif.PP.Define
import CbiVerif.Generated.Tables
/-! # C03 model: `MacroExpander.expand` as a total, pure step machine

`codebasin.preprocessor.MacroExpander.expand` is a `while True` loop over a stack of token streams
(`ExpanderHelper`s) that calls itself recursively to pre-expand macro arguments.  Here one iteration of the
loop is the pure function `step`; the Python call stack of the recursive `expand(arg, pre_expand=True)`
calls is the explicit list `frames`; a nested call that has just returned is the `ret` field.  Python's
exceptions are outcomes: `EndofParse` (= the innermost `expand` returns its stream), `MacroExpandOverflow`
(= the innermost `expand` re-initialises the expander and returns the single token `0`), everything else
(`IndexError`, `AttributeError`, `ParseError`) ends the run with an error.

Everything is structurally recursive (no `partial`), the nesting limit is a parameter (`Cfg.lim`;
`cbiExpand` instantiates it with the generated `Gen.maxLevel`). Core Lean only. -/
namespace CbiVerif.MX
open CbiVerif.PP

/-- `ExpanderHelper`: tokens with holes (`None`), read position, `pre_expand` flag -/
structure Helper where
  toks : List (Option Tok)
  pos : Nat
  pre : Bool
deriving Repr, DecidableEq

def Helper.eol (h : Helper) : Bool := h.pos ≥ h.toks.length

/-- a suspended `expand` loop that is pre-expanding the arguments of one macro call -/
structure Frame where
  pw : Bool                  -- `prev_white` of the macro-name token
  m : Macro
  cur : List Tok             -- the argument being pre-expanded by the nested call
  todo : List (List Tok)     -- arguments still to be looked at
  done : List Arg            -- arguments already processed (raw, pre-expansion if needed)
deriving Repr

/-- `MacroExpander.no_expand`: one entry per stream, `some name` for the replacement list of the macro `name`, `none`
    (Python's `None`, which equals no token spelling) for the outermost stream and for an argument being pre-expanded -/
abbrev NoExp := List (Option String)

/-- the state of the expander: `parser_stack` (head = top), `no_expand` (head = last), suspended loops,
    and the value a nested `expand` call has just returned (if any) -/
structure MS where
  stack : List Helper
  noExp : NoExp
  frames : List Frame
  ret : Option (List Tok)
deriving Repr

inductive Out
  | cont (s : MS)
  | done (res : List Tok)
  | err (e : Err)
deriving Repr

/-- parameters of the machine: the nesting limit (`MacroExpander.max_level`), and a switch that is `true` for the code
    (`ExpanderHelper.splice` "advancing pos to end of insertion"); `adv = false` is the machine before the repair of
    finding D11 (`splice` left the read position **before** the spliced-in tokens, which were therefore scanned again) and
    is kept only to state what the repair changed (`C03.D11_regression`) -/
structure Cfg where
  lim : Nat
  adv : Bool := true
deriving Repr, DecidableEq

def filterSome (l : List (Option Tok)) : List Tok := l.filterMap id

/-- `replacement[0] = copy(replacement[0]); replacement[0].prev_white = pw` -/
def fixpw (r : List Tok) (pw : Bool) : List Tok :=
  match r with | f :: rest => { f with pw := pw } :: rest | [] => []

/-- `ExpanderHelper.splice` -/
def splice (adv : Bool) (below top : Helper) : Helper :=
  let start := filterSome (below.toks.take below.pos)
  ⟨(start ++ filterSome top.toks ++ filterSome (below.toks.drop below.pos)).map some,
   if adv then start.length + (filterSome top.toks).length else start.length, below.pre⟩

def zeroTok : Tok := ⟨.num, "0", false, true⟩
def paint (t : Tok) : Tok := { t with expandable := false }

/-- the caller of an `expand` whose loop ended with `EndofParse`: result = the top stream without holes -/
def eopState (top : Helper) (rest : List Helper) (ne : NoExp) (frames : List Frame) : MS :=
  ⟨rest, ne.tail, frames, some (filterSome top.toks)⟩

/-- `MacroExpandOverflow` caught by the innermost `expand`: `self.__init__(platform)`, return `[0]` -/
def overflowState (frames : List Frame) : MS := ⟨[], [], frames, some [zeroTok]⟩

/-- result of `while self.parser_stack[-1].eol(): self.pop()` -/
inductive Popped
  | ok (top : Helper) (rest : List Helper) (ne : NoExp)
  | eop (top : Helper) (rest : List Helper) (ne : NoExp)   -- `pop()` raised EndofParse in this state

def popAll (adv : Bool) (top : Helper) (rest : List Helper) (ne : NoExp) : Popped :=
  if top.eol then
    match rest with
    | [] => .eop top [] ne
    | below :: rest' => if top.pre then .eop top (below :: rest') ne else popAll adv (splice adv below top) rest' ne.tail
  else .ok top rest ne

/-- `MacroExpander.peek_tok`: look down the stack without popping -/
def peekDown : List Helper → Option Tok
  | [] => none
  | h :: rest =>
    if h.eol then (if rest.isEmpty || h.pre then none else peekDown rest)
    else (h.toks[h.pos]?).join

inductive Consumed
  | ok (t : Tok) (top : Helper) (rest : List Helper) (ne : NoExp)
  | eop (top : Helper) (rest : List Helper) (ne : NoExp)
  | bad (e : Err)

/-- `MacroExpander.consume_tok` -/
def consume (adv : Bool) (top : Helper) (rest : List Helper) (ne : NoExp) : Consumed :=
  match popAll adv top rest ne with
  | .eop t r n => .eop t r n
  | .ok t r n =>
    match t.toks[t.pos]? with
    | some (some tok) => .ok tok { t with toks := t.toks.set t.pos none, pos := t.pos + 1 } r n
    | _ => .bad .type_

/-- `MacroExpander.replace_tok` followed by `continue` -/
def replaceTop (adv : Bool) (top : Helper) (rest : List Helper) (ne : NoExp) (frames : List Frame) (x : Tok) : Out :=
  match popAll adv top rest ne with
  | .eop t r n => .cont (eopState t r n frames)
  | .ok t r n => .cont ⟨{ t with toks := t.toks.set t.pos (some x), pos := t.pos + 1 } :: r, n, frames, none⟩

/-- the text of a token as the argument collection and the `(` test after a function-like macro name see it: only punctuators
    and operators delimit (`isinstance(tok, (Punctuator, Operator)) and tok.token == …`, repair of finding D44); the content of
    a string or character literal spelled `,` `(` `)` does not -/
def dtext (t : Tok) : String := if t.kind == .punct || t.kind == .op then t.text else ""

inductive Collected
  | ok (args : List (List Tok)) (top : Helper) (rest : List Helper) (ne : NoExp)
  | eop (top : Helper) (rest : List Helper) (ne : NoExp)
  | bad (e : Err)

/-- the argument-collection loop of `expand` (the opening parenthesis has been consumed) -/
def collectArgs (adv : Bool) : Nat → Helper → List Helper → NoExp → List (List Tok) → List Tok → Nat → Collected
  | 0, _, _, _, _, _, _ => .bad (.other "fuel")
  | f + 1, top, rest, ne, args, cur, depth =>
    match consume adv top rest ne with
    | .eop t r n => .eop t r n
    | .bad e => .bad e
    | .ok tok top' rest' ne' =>
      if dtext tok == "," && depth == 1 then collectArgs adv f top' rest' ne' (args ++ [cur]) [] depth
      else if dtext tok == "(" then collectArgs adv f top' rest' ne' args (cur ++ [tok]) (depth + 1)
      else if dtext tok == ")" then
        if depth == 1 then .ok (args ++ [cur]) top' rest' ne'
        else collectArgs adv f top' rest' ne' args (cur ++ [tok]) (depth - 1)
      else collectArgs adv f top' rest' ne' args (cur ++ [tok]) depth

/-- the same loop for the call of a variadic macro (repair of finding D10; C11 6.10.3p12): once `k` arguments are complete
    (`k` = `len(macro.args) - 1`, the number of named parameters) a comma no longer separates — the trailing arguments and the
    commas between them form one argument -/
def collectArgsV (adv : Bool) (k : Nat) : Nat → Helper → List Helper → NoExp → List (List Tok) → List Tok → Nat → Collected
  | 0, _, _, _, _, _, _ => .bad (.other "fuel")
  | f + 1, top, rest, ne, args, cur, depth =>
    match consume adv top rest ne with
    | .eop t r n => .eop t r n
    | .bad e => .bad e
    | .ok tok top' rest' ne' =>
      if dtext tok == "," && depth == 1 && decide (args.length < k) then collectArgsV adv k f top' rest' ne' (args ++ [cur]) [] depth
      else if dtext tok == "(" then collectArgsV adv k f top' rest' ne' args (cur ++ [tok]) (depth + 1)
      else if dtext tok == ")" then
        if depth == 1 then .ok (args ++ [cur]) top' rest' ne'
        else collectArgsV adv k f top' rest' ne' args (cur ++ [tok]) (depth - 1)
      else collectArgsV adv k f top' rest' ne' args (cur ++ [tok]) depth

def totalToks (st : List Helper) : Nat := st.foldl (fun n h => n + h.toks.length) 0

/-! ## `MacroFunction.replace` -/

def commaTok : Tok := ⟨.punct, ",", false, true⟩

/-- fold the trailing arguments of a variadic macro into one, separated by commas; an argument that was not
    pre-expanded contributes its raw tokens to the folded expansion (`input_args[idx][-1]`) -/
def foldVariadic (np : Nat) (inputArgs : List Arg) : List Arg :=
  let extra := inputArgs.drop (np - 1)
  let rec go : List Arg → List Tok → List Tok → List Tok × List Tok
    | [], raw, exp => (raw, exp)
    | [a], raw, exp => (raw ++ a.raw, exp ++ a.exp.getD a.raw)
    | a :: b :: r, raw, exp => go (b :: r) (raw ++ a.raw ++ [commaTok]) (exp ++ a.exp.getD a.raw ++ [commaTok])
  let re := go extra [] []
  inputArgs.take (np - 1) ++ [⟨re.1, some re.2⟩]

/-- `MacroFunction._parameter_index`: only an identifier names a parameter -/
def paramIdx (params : List String) (t : Tok) : Option Nat :=
  if t.kind == .ident then params.idxOf? t.text else none

/-- the `#` / `##` pass of `MacroFunction.replace` (only run when `has_strcat`).  The result holds `(token, is_arg)` pairs:
    `is_arg` marks what `#`/`##` produced from the arguments (final, never examined for parameter names again).  `lastCat`: the
    last result token was produced by `#`/`##`; `pm`: the previous `##` joined two empty operands (its result is a placemarker,
    nothing was appended); `pmw`: `prev_white` of the left operand of the last `##` -/
def strcatPass (params : List String) (inputArgs : List Arg) : Nat → List Tok → List (Tok × Bool) → Bool → Bool → Bool → Except Err (List (Tok × Bool))
  | 0, _, res, _, _, _ => .ok res
  | _ + 1, [], res, _, _, _ => .ok res
  | fuel + 1, tok :: rest', res, lastCat, pm, pmw =>
    if tok.text == "##" then
      -- left operand: (its tokens, the result list without it, its prev_white)
      let leftE : Except Err (List Tok × List (Tok × Bool) × Bool) :=
        if pm then .ok ([], res, pmw)
        else
          match res.getLast? with
          | none => .error .index
          | some (last0, _) =>
            if !lastCat then
              match paramIdx params last0 with
              | some i => match inputArgs[i]? with | some a => .ok (a.raw, res.dropLast, last0.pw) | none => .error .index
              | none => .ok ([last0], res.dropLast, last0.pw)
            else .ok ([last0], res.dropLast, last0.pw)
      match leftE with
      | .error e => .error e
      | .ok (last, res0, prevWhite) =>
        match rest' with
        | [] => .error .index
        | nexttok0 :: rest'' =>
          let nextE : Except Err (List Tok) :=
            match paramIdx params nexttok0 with
            | some i => match inputArgs[i]? with | some a => .ok a.raw | none => .error .index
            | none => .ok [nexttok0]
          match nextE with
          | .error e => .error e
          | .ok next =>
            let toaddE : Except Err (List Tok) :=
              match last.getLast?, next with
              | some ll, nf :: nrest =>
                match tokenizeOne (ll.text ++ nf.text).toList false with
                | none => .error (.parse "Invalid concatenation")
                | some (t, _) => .ok (last.dropLast ++ [{ t with pw := ll.pw }] ++ nrest)
              | _, _ => .ok (last ++ next)        -- an empty operand is a placemarker
            match toaddE with
            | .error e => .error e
            | .ok toadd =>
              strcatPass params inputArgs fuel rest'' (res0 ++ (fixpw toadd prevWhite).map (·, true)) true toadd.isEmpty prevWhite
    else if tok.text == "#" then
      match rest' with
      | [] => .error (.parse "# at end")
      | nexttok :: rest'' =>
        match paramIdx params nexttok with
        | none => .error (.parse "# not followed by argument")
        | some i =>
          match inputArgs[i]? with
          | none => .error .index
          | some a =>
            match stringify a.raw with
            | none => .error .type_
            | some t => strcatPass params inputArgs fuel rest'' (res ++ [({ t with pw := tok.pw }, true)]) true false pmw   -- `tok.prev_white = hash_white`
    else strcatPass params inputArgs fuel rest' (res ++ [(tok, false)]) false false pmw

/-- the final substitution loop of `MacroFunction.replace`: tokens marked `is_arg` are copied -/
def substArgs (params : List String) (inputArgs : List Arg) : List (Tok × Bool) → Except Err (List Tok)
  | [] => .ok []
  | (token, isArg) :: rest =>
    match (if isArg then none else paramIdx params token) with
    | some i =>
      match inputArgs[i]? with
      | none => .error .index
      | some a =>
        match a.exp with
        | none => .error .index
        | some e =>
          match substArgs params inputArgs rest with
          | .ok r => .ok (fixpw e token.pw ++ r)
          | .error x => .error x
    | none =>
      match substArgs params inputArgs rest with
      | .ok r => .ok (token :: r)
      | .error x => .error x

/-- `MacroFunction.replace(input_args)` -/
def replaceFn (m : Macro) (inputArgs : List Arg) : Except Err (List Tok) :=
  let params := m.args.getD []
  let ia := if m.variadic then foldVariadic params.length inputArgs else inputArgs
  match (if m.hasStrcat then strcatPass params ia (m.replacement.length + 1) m.replacement [] false false false
         else .ok (m.replacement.map (·, false))) with
  | .error e => .error e
  | .ok res => substArgs params ia res

/-! ## the loop -/

/-- is the `i`-th collected argument macro-expanded before substitution?  The arguments beyond the named parameters of a
    variadic macro all belong to its last parameter (`__VA_ARGS__`); for other macros an argument without a parameter is
    expanded (the call then fails in `replace`). -/
def needsPre (m : Macro) (i : Nat) : Bool :=
  if m.variadic && decide (i ≥ m.needsExp.length) then m.needsExp.getLast?.getD true
  else (decide (i ≥ m.needsExp.length) || m.needsExp.getD i true)

/-- after the arguments of a call were collected: pre-expand those that need it (each by a nested `expand`,
    i.e. by pushing a frame), then substitute and push the replacement -/
def processArgs (c : Cfg) (pw : Bool) (m : Macro) : List (List Tok) → List Arg → MS → Out
  | [], done, s =>
    match replaceFn m done with
    | .error e => .err e
    | .ok repl =>
      if s.stack.length + 1 ≥ c.lim then .cont (overflowState s.frames)
      else .cont ⟨⟨(fixpw repl pw).map some, 0, false⟩ :: s.stack, some m.name :: s.noExp, s.frames, none⟩
  | a :: rest, done, s =>
    if needsPre m done.length then
      if s.stack.length ≥ c.lim then .cont (overflowState s.frames)
      else if a.isEmpty then processArgs c pw m rest (done ++ [⟨a, some a⟩]) s
      else .cont ⟨⟨a.map some, 0, true⟩ :: s.stack, none :: s.noExp, ⟨pw, m, a, rest, done⟩ :: s.frames, none⟩
    else processArgs c pw m rest (done ++ [⟨a, none⟩]) s

def isDefined (tbl : Table) (n : String) : String := if (tbl.get n).isSome then "1" else "0"

/-- `defined X` / `defined(X)`; `top'` is the top stream after `defined` was consumed -/
def stepDefined (adv : Bool) (tbl : Table) (s : MS) (top' : Helper) (rest : List Helper) : Out :=
  match peekDown (top' :: rest) with
  | none => .err .type_
  | some tok =>
    if tok.text == "(" then
      match consume adv top' rest s.noExp with
      | .eop t r n => .cont (eopState t r n s.frames)
      | .bad e => .err e
      | .ok _ top1 rest1 ne1 =>
        match consume adv top1 rest1 ne1 with
        | .eop t r n => .cont (eopState t r n s.frames)
        | .bad e => .err e
        | .ok ident top2 rest2 ne2 =>
          match peekDown (top2 :: rest2) with
          | none => .err .type_
          | some p =>
            if p.text != ")" then .err (.parse "Expected ')'")
            else if ident.kind != .ident then .err (.parse "Expected identifier after 'defined'")
            else replaceTop adv top2 rest2 ne2 s.frames ⟨.num, isDefined tbl ident.text, ident.pw, true⟩
    else if tok.kind != .ident then .err (.parse "Expected identifier after 'defined'")
    else replaceTop adv top' rest s.noExp s.frames ⟨.num, isDefined tbl tok.text, tok.pw, true⟩

/-- the name `t` of the function-like macro `m` is at the read position of `top` -/
def stepCall (c : Cfg) (s : MS) (top : Helper) (rest : List Helper) (t : Tok) (m : Macro) : Out :=
  let top' : Helper := { top with toks := top.toks.set top.pos none, pos := top.pos + 1 }
  if (peekDown (top' :: rest)).map dtext != some "(" then
    .cont ⟨{ top with pos := top.pos + 1 } :: rest, s.noExp, s.frames, none⟩
  else
    match consume c.adv top' rest s.noExp with
    | .eop t r n => .cont (eopState t r n s.frames)
    | .bad e => .err e
    | .ok _ top1 rest1 ne1 =>
      match (if m.variadic then collectArgsV c.adv ((m.args.getD []).length - 1) (totalToks (top1 :: rest1) + 1) top1 rest1 ne1 [] [] 1
             else collectArgs c.adv (totalToks (top1 :: rest1) + 1) top1 rest1 ne1 [] [] 1) with
      | .eop t r n => .cont (eopState t r n s.frames)
      | .bad e => .err e
      | .ok args top2 rest2 ne2 => processArgs c t.pw m args [] ⟨top2 :: rest2, ne2, s.frames, none⟩

/-- one iteration of the `while True` loop of `MacroExpander.expand` (a pop is an iteration of its own;
    the return of a nested `expand` is an iteration of its own) -/
def step (c : Cfg) (tbl : Table) (s : MS) : Out :=
  match s.ret with
  | some res =>
    match s.frames with
    | [] => .done res
    | f :: fs => processArgs c f.pw f.m f.todo (f.done ++ [⟨f.cur, some res⟩]) ⟨s.stack, s.noExp, fs, none⟩
  | none =>
    match s.stack with
    | [] => .err .index
    | top :: rest =>
      if top.pos ≥ top.toks.length then
        match rest with
        | [] => .cont (eopState top [] s.noExp s.frames)
        | below :: rest' =>
          if top.pre then .cont (eopState top rest s.noExp s.frames)
          else .cont ⟨splice c.adv below top :: rest', s.noExp.tail, s.frames, none⟩
      else
        match top.toks[top.pos]? with
        | some (some t) =>
          if t.kind != .ident then .cont ⟨{ top with pos := top.pos + 1 } :: rest, s.noExp, s.frames, none⟩
          else if t.text == "defined" then
            stepDefined c.adv tbl s { top with toks := top.toks.set top.pos none, pos := top.pos + 1 } rest
          else if !t.expandable || s.noExp.contains (some t.text) then
            .cont ⟨{ top with toks := top.toks.set top.pos (some (paint t)), pos := top.pos + 1 } :: rest, s.noExp, s.frames, none⟩
          else
            match tbl.get t.text with
            | none => .cont ⟨{ top with pos := top.pos + 1 } :: rest, s.noExp, s.frames, none⟩
            | some m =>
              match m.args with
              | some _ => stepCall c s top rest t m
              | none =>
                let child : Helper := ⟨(fixpw m.replacement t.pw).map some, 0, false⟩
                let top' : Helper := { top with toks := top.toks.set top.pos none, pos := top.pos + 1 }
                if rest.length + 2 ≥ c.lim then .cont (overflowState s.frames)
                else .cont ⟨child :: top' :: rest, some m.name :: s.noExp, s.frames, none⟩
        | _ => .cont ⟨{ top with pos := top.pos + 1 } :: rest, s.noExp, s.frames, none⟩

inductive XR
  | ok (ts : List Tok)
  | error (e : Err)
  | fuel
deriving Repr, DecidableEq

def run (c : Cfg) (tbl : Table) : Nat → MS → XR
  | 0, _ => .fuel
  | f + 1, s =>
    match step c tbl s with
    | .cont s' => run c tbl f s'
    | .done r => .ok r
    | .err e => .error e

/-- the state after `expand(tokens)` has pushed its stream -/
def initState (ts : List Tok) : MS := ⟨[⟨ts.map some, 0, false⟩], [none], [], none⟩

/-- `MacroExpander(platform).expand(tokens)` with parameters `c` and `fuel` loop iterations -/
def expandWith (c : Cfg) (tbl : Table) (fuel : Nat) (ts : List Tok) : XR :=
  if c.lim = 0 then .error .overflow
  else if ts.isEmpty then .ok ts
  else run c tbl fuel (initState ts)

/-! ## fuel -/
def bodyMax (tbl : Table) : Nat := tbl.foldl (fun n e => max n e.2.replacement.length) 0

/-- bound on the length of an object-like expansion per input token at depth `d` -/
def Lb (B : Nat) : Nat → Nat
  | 0 => 1
  | d + 1 => B * Lb B d + 1

/-- bound on the number of loop iterations per input token at depth `d` (object-like tables) -/
def Cb (B : Nat) : Nat → Nat
  | 0 => 1
  | d + 1 => B * Cb B d + B * Lb B d + 3

/-- loop iterations granted to a run: proved sufficient for object-like tables (`C03.terminates`);
    the additive slack is what function-like calls get on top -/
def fuelFor (tbl : Table) (ts : List Tok) : Nat :=
  ts.length * Cb (bodyMax tbl) (tbl.length + 1) + 2 + 4000000

/-- the code as it is: generated nesting limit, `splice` as implemented -/
def realCfg : Cfg := { lim := CbiVerif.Gen.maxLevel, adv := true }

/-- **the model of `MacroExpander(platform).expand(tokens)`** -/
def cbiExpand (tbl : Table) (ts : List Tok) : XR :=
  expandWith realCfg tbl (fuelFor tbl ts) ts

/-- instrumentation for the harness (same `step`): number of iterations and peak stack depth -/
def stats (c : Cfg) (tbl : Table) : Nat → MS → Nat → Nat → Nat × Nat
  | 0, _, n, pk => (n, pk)
  | f + 1, s, n, pk =>
    match step c tbl s with
    | .cont s' => stats c tbl f s' (n + 1) (max pk s'.stack.length)
    | _ => (n + 1, pk)

/-! ## definitions: `#define` line and command-line form, on token lists -/

def oneTok : Tok := ⟨.num, "1", false, true⟩

/-- `DirectiveParser.parse` on a `#define` line + `DefineNode.evaluate_for_platform` -/
def defineFromToks (ts : List Tok) : Except Err Macro :=
  match ts with
  | h :: d :: rest =>
    if h.kind == .op && h.text == "#" && d.kind == .ident && d.text == "define" then
      match macroDefinition rest with
      | some (n, args, body) => makeMacro n args body
      | none => .error (.parse "Invalid define")
    else .error (.parse "not a define")
  | _ => .error (.parse "not a define")

/-- `macro_from_definition_string` after lexing -/
def macroFromDefinitionToks (ts : List Tok) : Except Err Macro :=
  match macroDefinition ts with
  | none => .error (.parse "Expected identifier")
  | some (n, args, rest) =>
    match rest with
    | [] => makeMacro n args [oneTok]
    | e :: body => if e.kind == .op && e.text == "=" then makeMacro n args body else .error (.parse "Expected =")

def defineLine (line : String) : Except Err Macro := defineFromToks (tokenize line)
def defineCmdline (s : String) : Except Err Macro := macroFromDefinitionToks (tokenize s)

/-- `Platform.define`: the first definition of a name wins -/
def tblAdd (tbl : Table) (m : Macro) : Table := if (tbl.get m.name).isSome then tbl else tbl ++ [(m.name, m)]

/-- the table of a translation unit: command-line definitions first (as `finder.find` does), then `#define` lines
    (texts after `#define `), first definition of a name wins; any definition error aborts -/
def buildTable (cmd defs : List String) : Except Err Table :=
  let rec go : List (Except Err Macro) → Table → Except Err Table
    | [], tbl => .ok tbl
    | .ok m :: r, tbl => go r (tblAdd tbl m)
    | .error e :: _, _ => .error e
  go (cmd.map defineCmdline ++ defs.map fun d => defineLine ("#define " ++ d)) []

/-- spelling of a token as the harness compares it (`str(token)`, character constants with their quotes) -/
def spellTok (t : Tok) : String :=
  match t.kind with
  | .str => "\"" ++ t.text ++ "\""
  | .chr => "'" ++ t.text ++ "'"
  | _ => t.text

inductive TextResult
  | ok (spellings : List String)
  | error (e : Err)
  | fuel
deriving Repr, DecidableEq

/-- definitions + text ↦ spellings of the expansion (what the correspondence check observes) -/
def expandText (cmd defs : List String) (text : String) : TextResult :=
  match buildTable cmd defs with
  | .error e => .error e
  | .ok tbl =>
    match cbiExpand tbl (tokenize text) with
    | .ok r => .ok (r.map spellTok)
    | .error e => .error e
    | .fuel => .fuel

end CbiVerif.MX
