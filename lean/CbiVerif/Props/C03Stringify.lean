import CbiVerif.Props.C03
/-! # C03 — `#` stringification after the repair of finding D10

The code (`Lexer.stringify`, `CharacterConstant.sanitized_str`, the `#` branch of `MacroFunction.replace`, the argument collection of
`MacroExpander.expand` for variadic macros) was repaired; the model (`PP.stringify`, `PP.sanitized`, `MX.strcatPass`, `MX.collectArgsV`)
follows it.  Model `M` = `CbiVerif.MX.cbiExpand`, spec `S` = `CbiVerif.Spec.Prosser.prosser` (`stringize`: C11 6.10.3.2p2).

* for every argument: `stringify_leading_white` (white space before the first token of the argument never reaches the spelling),
  `stringify_spelling` (the spelling is `strBody`: one blank exactly where a later token has `prev_white`), `stringify_empty`,
  `sanitized_chr` (a character constant keeps its quotes; `"` and `\` are escaped), `sanitized_other` (identifiers, numbers,
  operators, punctuators are spelled as they are), `hash_takes_white_of_operator` (the string literal takes the `prev_white` of the `#`);
* `D10_fixed_*`: model AND specification give the C result on the former D10 shapes (leading / trailing / repeated blanks, empty
  argument, character constants, string literals with escapes, nested calls that are not expanded because `#` takes the unexpanded
  argument, a `#` result stringified again, variable arguments with blanks before their commas);
* `D42_witness`, `full_fails`: what is still open — `C03.Full` stays false by finding D42. -/
namespace CbiVerif.C03
open CbiVerif.PP CbiVerif.MX

/-- the text between the quotes of `#param`: the spellings of the argument's tokens, one blank before every token but the first
    that is preceded by white space -/
def strBody : List Tok → String
  | [] => ""
  | f :: r => r.foldl (fun acc p => acc ++ (if p.pw then " " else "") ++ sanitized p) (sanitized f)

/-- **`Lexer.stringify`, every argument**: the token is what the lexer makes of `"` + `strBody` + `"` -/
theorem stringify_spelling (ts : List Tok) :
    stringify ts = (tokenizeOne ("\"" ++ strBody ts ++ "\"").toList false).map (·.1) := by
  cases ts <;> rfl

/-- **white space before the argument is deleted** (C11 6.10.3.2p2), for every argument: `prev_white` of the first token has no
    influence on the result -/
theorem stringify_leading_white (f : Tok) (r : List Tok) (b : Bool) :
    stringify ({ f with pw := b } :: r) = stringify (f :: r) := rfl

/-- the same for the spelling itself -/
theorem strBody_leading_white (f : Tok) (r : List Tok) (b : Bool) : strBody ({ f with pw := b } :: r) = strBody (f :: r) := rfl

/-- an empty argument gives `""` -/
theorem stringify_empty : stringify [] = some ⟨.str, "", false, true⟩ := by decide +kernel

/-- **a character constant keeps its quotes**; each `"` and `\` inside it is escaped (every text) -/
theorem sanitized_chr (s : String) (w x : Bool) :
    sanitized ⟨.chr, s, w, x⟩ = "'" ++ String.ofList (s.toList.flatMap fun c => if c == '\\' || c == '"' then ['\\', c] else [c]) ++ "'" := rfl

/-- identifiers, numbers, operators, punctuators and unknown characters are spelled as they are -/
theorem sanitized_other (t : Tok) (h1 : t.kind ≠ .str) (h2 : t.kind ≠ .chr) : sanitized t = t.text := by
  obtain ⟨k, s, w, x⟩ := t
  cases k <;> first | rfl | exact absurd rfl h1 | exact absurd rfl h2

/-- **the result of `#param` takes the `prev_white` of the `#`** (so that a later `#` applied to it spells the blank): one step of
    the `#` / `##` pass, every parameter list, argument list and context -/
theorem hash_takes_white_of_operator (params : List String) (ia : List Arg) (fuel : Nat) (h p : Tok) (rest : List Tok)
    (res : List (Tok × Bool)) (lc pm pmw : Bool) (i : Nat) (a : Arg) (t : Tok)
    (hh : h.text = "#") (hp : paramIdx params p = some i) (ha : ia[i]? = some a) (hs : stringify a.raw = some t) :
    strcatPass params ia (fuel + 1) (h :: p :: rest) res lc pm pmw
      = strcatPass params ia fuel rest (res ++ [({ t with pw := h.pw }, true)]) true false pmw := by
  have h1 : (h.text == "##") = false := by rw [hh]; decide
  have h2 : (h.text == "#") = true := by rw [hh]; decide
  simp only [strcatPass, h1, Bool.false_eq_true, if_false, h2, if_true, hp, ha, hs]

example : ∃ (params : List String) (ia : List Arg) (h p : Tok) (i : Nat) (a : Arg) (t : Tok),
    h.text = "#" ∧ h.pw = true ∧ paramIdx params p = some i ∧ ia[i]? = some a ∧ stringify a.raw = some t ∧ t.text = "'q' + b" :=
  ⟨["x"], [⟨[⟨.chr, "q", true, true⟩, ⟨.op, "+", true, true⟩, ⟨.ident, "b", true, true⟩], none⟩], ⟨.op, "#", true, true⟩,
    ⟨.ident, "x", false, true⟩, 0, ⟨[⟨.chr, "q", true, true⟩, ⟨.op, "+", true, true⟩, ⟨.ident, "b", true, true⟩], none⟩,
    ⟨.str, "'q' + b", false, true⟩, rfl, rfl, by decide +kernel, rfl, by decide +kernel, rfl⟩

/-! ## the former D10 shapes: model = specification = C -/

/-- leading, trailing and repeated white space; the empty argument -/
theorem D10_fixed_white : expandText [] ["STR(x) #x"] "STR(  a   +  b ) STR() STR(a )" = .ok ["\"a + b\"", "\"\"", "\"a\""] ∧
    specText ["STR(x) #x"] "STR(  a   +  b ) STR() STR(a )" = some ["\"a + b\"", "\"\"", "\"a\""] := by
  decide +kernel

/-- character constants: quotes kept, `"` and `\` escaped -/
theorem D10_fixed_chars :
    expandText [] ["STR(x) #x"] "STR('\"') STR('\\\\') STR( '\\n' 'a')" = .ok ["\"'\\\"'\"", "\"'\\\\\\\\'\"", "\"'\\\\n' 'a'\""] ∧
    specText ["STR(x) #x"] "STR('\"') STR('\\\\') STR( '\\n' 'a')" = some ["\"'\\\"'\"", "\"'\\\\\\\\'\"", "\"'\\\\n' 'a'\""] := by
  decide +kernel

/-- string literals: quotes and backslashes escaped -/
theorem D10_fixed_strings :
    expandText [] ["STR(x) #x"] "STR(\"x\\n\") STR( \"a\\\"b\"  'c' )" = .ok ["\"\\\"x\\\\n\\\"\"", "\"\\\"a\\\\\\\"b\\\" 'c'\""] ∧
    specText ["STR(x) #x"] "STR(\"x\\n\") STR( \"a\\\"b\"  'c' )" = some ["\"\\\"x\\\\n\\\"\"", "\"\\\"a\\\\\\\"b\\\" 'c'\""] := by
  decide +kernel

/-- `#` takes the unexpanded argument: a nested call is spelled, not expanded; one level of indirection expands first -/
theorem D10_fixed_unexpanded :
    expandText [] ["STR(x) #x", "XSTR(x) STR(x)", "N 3"] "STR( STR( N ) ) XSTR( N )" = .ok ["\"STR( N )\"", "\"3\""] ∧
    specText ["STR(x) #x", "XSTR(x) STR(x)", "N 3"] "STR( STR( N ) ) XSTR( N )" = some ["\"STR( N )\"", "\"3\""] := by
  decide +kernel

/-- a `#` result that is stringified again: the blank in front of the inner `#` is spelled -/
theorem D10_fixed_nested_hash :
    expandText [] ["S(x) #x", "F(x) S(a #x)", "G(x) S(a#x)"] "F(1) G(1)" = .ok ["\"a \\\"1\\\"\"", "\"a\\\"1\\\"\""] ∧
    specText ["S(x) #x", "F(x) S(a #x)", "G(x) S(a#x)"] "F(1) G(1)" = some ["\"a \\\"1\\\"\"", "\"a\\\"1\\\"\""] := by
  decide +kernel

/-- variable arguments: the commas between them belong to the argument, with the white space in front of them (C11 6.10.3p12) -/
theorem D10_fixed_variadic : expandText [] ["V(...) #__VA_ARGS__"] "V( a , b,c )" = .ok ["\"a , b,c\""] ∧
    specText ["V(...) #__VA_ARGS__"] "V( a , b,c )" = some ["\"a , b,c\""] := by
  decide +kernel

/-! ## what is still open -/

/-- D42 (open): `#` and `##` are recognised by token text whatever the kind of the token, so a string literal whose content is
    `#` in a replacement list is taken for the stringification operator -/
theorem D42_witness : expandText [] ["F(x) \"#\" x"] "F(1)" = .ok ["\"1\""] ∧
    specText ["F(x) \"#\" x"] "F(1)" = some ["\"#\"", "1"] := by
  decide +kernel

/-- the full statement does not hold for the code as it is (the remaining finding D42 is a counterexample) -/
theorem full_fails : ¬ Full := by
  intro h
  have hs := D42_witness.2
  have hm := D42_witness.1
  unfold specText at hs
  cases hp : CbiVerif.Spec.Prosser.prosser ["F(x) \"#\" x"] "F(1)" with
  | error e => simp [hp] at hs
  | ok out =>
    simp only [hp, Option.some.injEq] at hs
    have := h [] ["F(x) \"#\" x"] "F(1)" out (by simpa using hp)
    rw [hm, hs] at this
    exact absurd this (by decide)

end CbiVerif.C03
