import CbiVerif.Model.Metrics
import Mathlib.Tactic.Ring
import Mathlib.Tactic.Linarith
import Mathlib.Tactic.FieldSimp
import Mathlib.Tactic.Positivity
import Mathlib.Algebra.Order.Field.Basic
import Mathlib.Algebra.BigOperators.Group.List.Basic
import Mathlib.Data.List.Perm.Basic
import Mathlib.Data.List.Nodup
import Mathlib.Data.List.Dedup

/-!
# Helper lemmas for `CbiVerif.Props.C07` (model `CbiVerif.Model.Metrics`)
-/
namespace CbiVerif.Metrics

/-! ## weighted sums: every count of the model is a `wsum` -/

/-- number of lines whose platform set satisfies `w` -/
def wsum (sm : Setmap) (w : List String → Bool) : Nat :=
  (sm.map fun e => if w e.1 then e.2 else 0).sum

@[simp] theorem wsum_nil (w : List String → Bool) : wsum [] w = 0 := rfl

@[simp] theorem wsum_cons (e : List String × Nat) (sm : Setmap) (w : List String → Bool) :
    wsum (e :: sm) w = (if w e.1 then e.2 else 0) + wsum sm w := by
  simp [wsum]

theorem usedBy_eq_wsum (sm : Setmap) (ps : List String) :
    usedBy sm ps = wsum sm (fun s => s.any fun p => ps.contains p) := rfl
theorem unionCount_eq_wsum (sm : Setmap) (p q : String) :
    unionCount sm p q = wsum sm (fun s => s.contains p || s.contains q) := rfl
theorem xorCount_eq_wsum (sm : Setmap) (p q : String) :
    xorCount sm p q = wsum sm (fun s => (s.contains p) != (s.contains q)) := rfl
theorem interCount_eq_wsum (sm : Setmap) (p q : String) :
    interCount sm p q = wsum sm (fun s => s.contains p && s.contains q) := rfl

theorem total_eq_wsum (sm : Setmap) : total sm = wsum sm (fun _ => true) := by
  simp [total, wsum]

theorem wsum_congr {sm : Setmap} {w1 w2 : List String → Bool}
    (h : ∀ e ∈ sm, w1 e.1 = w2 e.1) : wsum sm w1 = wsum sm w2 := by
  induction sm with
  | nil => rfl
  | cons e sm ih =>
    rw [wsum_cons, wsum_cons, h e (List.mem_cons_self ..),
      ih (fun e' he' => h e' (List.mem_cons_of_mem _ he'))]

theorem wsum_mono {sm : Setmap} {w1 w2 : List String → Bool}
    (h : ∀ s, w1 s = true → w2 s = true) : wsum sm w1 ≤ wsum sm w2 := by
  induction sm with
  | nil => exact Nat.le_refl _
  | cons e sm ih =>
    rw [wsum_cons, wsum_cons]
    cases h1 : w1 e.1 with
    | false => simp only [Bool.false_eq_true, if_false]; omega
    | true => rw [h _ h1]; simp only [if_true]; omega

theorem wsum_perm {sm sm' : Setmap} (h : sm.Perm sm') (w : List String → Bool) :
    wsum sm w = wsum sm' w :=
  (h.map _).sum_eq

theorem wsum_scale (k : Nat) (sm : Setmap) (w : List String → Bool) :
    wsum (scale k sm) w = k * wsum sm w := by
  induction sm with
  | nil => simp [scale]
  | cons e sm ih =>
    have : scale k (e :: sm) = (e.1, k * e.2) :: scale k sm := rfl
    rw [this, wsum_cons, wsum_cons, ih, Nat.mul_add]
    cases w e.1 <;> simp

theorem wsum_rename (f : String → String) (sm : Setmap) (w : List String → Bool) :
    wsum (rename f sm) w = wsum sm (fun s => w (s.map f)) := by
  induction sm with
  | nil => simp [rename]
  | cons e sm ih =>
    have : rename f (e :: sm) = (e.1.map f, e.2) :: rename f sm := rfl
    rw [this, wsum_cons, wsum_cons, ih]

theorem wsum_add {sm : Setmap} {w1 w2 w3 : List String → Bool}
    (hor : ∀ s, w3 s = (w1 s || w2 s)) (hdisj : ∀ s, (w1 s && w2 s) = false) :
    wsum sm w3 = wsum sm w1 + wsum sm w2 := by
  induction sm with
  | nil => rfl
  | cons e sm ih =>
    rw [wsum_cons, wsum_cons, wsum_cons, ih, hor e.1]
    have := hdisj e.1
    cases h1 : w1 e.1 <;> cases h2 : w2 e.1 <;> simp_all <;> omega

/-! ## the counts -/

theorem usedBy_le_total (sm : Setmap) (ps : List String) : usedBy sm ps ≤ total sm := by
  rw [usedBy_eq_wsum, total_eq_wsum]; exact wsum_mono (fun _ _ => rfl)

theorem xorCount_le_unionCount (sm : Setmap) (p q : String) : xorCount sm p q ≤ unionCount sm p q := by
  rw [xorCount_eq_wsum, unionCount_eq_wsum]
  apply wsum_mono
  intro s
  cases s.contains p <;> cases s.contains q <;> simp

theorem unionCount_eq_add (sm : Setmap) (p q : String) :
    unionCount sm p q = xorCount sm p q + interCount sm p q := by
  rw [xorCount_eq_wsum, unionCount_eq_wsum, interCount_eq_wsum]
  apply wsum_add <;> intro s <;> cases s.contains p <;> cases s.contains q <;> rfl

theorem unionCount_symm (sm : Setmap) (p q : String) : unionCount sm p q = unionCount sm q p := by
  rw [unionCount_eq_wsum, unionCount_eq_wsum]
  exact wsum_congr (fun e _ => Bool.or_comm _ _)

theorem xorCount_symm (sm : Setmap) (p q : String) : xorCount sm p q = xorCount sm q p := by
  rw [xorCount_eq_wsum, xorCount_eq_wsum]
  exact wsum_congr (fun e _ => by cases e.1.contains p <;> cases e.1.contains q <;> rfl)

theorem xorCount_self (sm : Setmap) (p : String) : xorCount sm p p = 0 := by
  rw [xorCount_eq_wsum]
  induction sm with
  | nil => rfl
  | cons e sm ih => rw [wsum_cons, ih]; simp

theorem usedBy_congr (sm : Setmap) {ps ps' : List String} (h : ∀ p, p ∈ ps ↔ p ∈ ps') :
    usedBy sm ps = usedBy sm ps' := by
  rw [usedBy_eq_wsum, usedBy_eq_wsum]
  apply wsum_congr
  intro e _
  have : (fun p => ps.contains p) = (fun p => ps'.contains p) := by
    funext p
    rw [Bool.eq_iff_iff]
    simp [h p]
  simp only [this]

theorem total_perm {sm sm' : Setmap} (h : sm.Perm sm') : total sm = total sm' := by
  rw [total_eq_wsum, total_eq_wsum]; exact wsum_perm h _
theorem usedBy_perm {sm sm' : Setmap} (h : sm.Perm sm') (ps : List String) :
    usedBy sm ps = usedBy sm' ps := by
  rw [usedBy_eq_wsum, usedBy_eq_wsum]; exact wsum_perm h _
theorem unionCount_perm {sm sm' : Setmap} (h : sm.Perm sm') (p q : String) :
    unionCount sm p q = unionCount sm' p q := by
  rw [unionCount_eq_wsum, unionCount_eq_wsum]; exact wsum_perm h _
theorem xorCount_perm {sm sm' : Setmap} (h : sm.Perm sm') (p q : String) :
    xorCount sm p q = xorCount sm' p q := by
  rw [xorCount_eq_wsum, xorCount_eq_wsum]; exact wsum_perm h _

theorem total_scale (k : Nat) (sm : Setmap) : total (scale k sm) = k * total sm := by
  rw [total_eq_wsum, total_eq_wsum]; exact wsum_scale ..
theorem usedBy_scale (k : Nat) (sm : Setmap) (ps : List String) :
    usedBy (scale k sm) ps = k * usedBy sm ps := by
  rw [usedBy_eq_wsum, usedBy_eq_wsum]; exact wsum_scale ..
theorem unionCount_scale (k : Nat) (sm : Setmap) (p q : String) :
    unionCount (scale k sm) p q = k * unionCount sm p q := by
  rw [unionCount_eq_wsum, unionCount_eq_wsum]; exact wsum_scale ..
theorem xorCount_scale (k : Nat) (sm : Setmap) (p q : String) :
    xorCount (scale k sm) p q = k * xorCount sm p q := by
  rw [xorCount_eq_wsum, xorCount_eq_wsum]; exact wsum_scale ..

theorem contains_map_inj {f : String → String} (hf : Function.Injective f) (s : List String)
    (p : String) : (s.map f).contains (f p) = s.contains p := by
  rw [Bool.eq_iff_iff]
  simp only [List.contains_iff_mem, List.mem_map]
  constructor
  · rintro ⟨a, ha, hfa⟩
    exact hf hfa ▸ ha
  · intro h; exact ⟨p, h, rfl⟩

theorem total_rename (f : String → String) (sm : Setmap) : total (rename f sm) = total sm := by
  rw [total_eq_wsum, total_eq_wsum]; exact wsum_rename ..

theorem usedBy_rename {f : String → String} (hf : Function.Injective f) (sm : Setmap)
    (ps : List String) : usedBy (rename f sm) (ps.map f) = usedBy sm ps := by
  rw [usedBy_eq_wsum, usedBy_eq_wsum, wsum_rename]
  apply wsum_congr
  intro e _
  simp only [List.any_map]
  congr 1
  funext p
  exact contains_map_inj hf ps p

theorem unionCount_rename {f : String → String} (hf : Function.Injective f) (sm : Setmap)
    (p q : String) : unionCount (rename f sm) (f p) (f q) = unionCount sm p q := by
  rw [unionCount_eq_wsum, unionCount_eq_wsum, wsum_rename]
  apply wsum_congr
  intro e _
  simp only [contains_map_inj hf]

theorem xorCount_rename {f : String → String} (hf : Function.Injective f) (sm : Setmap)
    (p q : String) : xorCount (rename f sm) (f p) (f q) = xorCount sm p q := by
  rw [xorCount_eq_wsum, xorCount_eq_wsum, wsum_rename]
  apply wsum_congr
  intro e _
  simp only [contains_map_inj hf]

/-! ## `eraseDups` and `platformsOf` -/

theorem nodup_eraseDups_aux {α : Type} [BEq α] [LawfulBEq α] :
    ∀ (n : Nat) (l : List α), l.length ≤ n → l.eraseDups.Nodup := by
  intro n
  induction n with
  | zero =>
    intro l hl
    have : l = [] := List.eq_nil_of_length_eq_zero (by omega)
    subst this; simp
  | succ n ih =>
    intro l hl
    cases l with
    | nil => simp
    | cons a as =>
      rw [List.eraseDups_cons, List.nodup_cons]
      refine ⟨?_, ih _ ?_⟩
      · rw [List.mem_eraseDups, List.mem_filter]
        rintro ⟨_, h⟩
        simp at h
      · have := List.length_filter_le (fun b => !b == a) as
        simp only [List.length_cons] at hl
        omega

theorem nodup_eraseDups {α : Type} [BEq α] [LawfulBEq α] (l : List α) : l.eraseDups.Nodup :=
  nodup_eraseDups_aux l.length l (Nat.le_refl _)

theorem mem_platformsOf (sm : Setmap) (p : String) :
    p ∈ platformsOf sm ↔ ∃ e ∈ sm, p ∈ e.1 := by
  simp [platformsOf, List.mem_flatMap]

theorem nodup_platformsOf (sm : Setmap) : (platformsOf sm).Nodup := nodup_eraseDups _

theorem platformsOf_perm {sm sm' : Setmap} (h : sm.Perm sm') :
    (platformsOf sm).Perm (platformsOf sm') := by
  rw [List.perm_ext_iff_of_nodup (nodup_platformsOf _) (nodup_platformsOf _)]
  intro p
  simp only [mem_platformsOf]
  constructor
  · rintro ⟨e, he, hp⟩; exact ⟨e, h.mem_iff.mp he, hp⟩
  · rintro ⟨e, he, hp⟩; exact ⟨e, h.mem_iff.mpr he, hp⟩

theorem platformsOf_scale (k : Nat) (sm : Setmap) : platformsOf (scale k sm) = platformsOf sm := by
  have : (scale k sm).flatMap (·.1) = sm.flatMap (·.1) := by
    induction sm with
    | nil => rfl
    | cons e sm ih =>
      have h : scale k (e :: sm) = (e.1, k * e.2) :: scale k sm := rfl
      rw [h, List.flatMap_cons, List.flatMap_cons, ih]
  simp only [platformsOf, this]

theorem platformsOf_rename {f : String → String} (hf : Function.Injective f) (sm : Setmap) :
    (platformsOf (rename f sm)).Perm ((platformsOf sm).map f) := by
  rw [List.perm_ext_iff_of_nodup (nodup_platformsOf _) ((nodup_platformsOf _).map hf)]
  intro p
  simp only [mem_platformsOf, List.mem_map, rename]
  constructor
  · rintro ⟨e, ⟨e0, he0, rfl⟩, hp⟩
    simp only [List.mem_map] at hp
    obtain ⟨a, ha, rfl⟩ := hp
    exact ⟨a, ⟨e0, he0, ha⟩, rfl⟩
  · rintro ⟨a, ⟨e0, he0, ha⟩, rfl⟩
    exact ⟨(e0.1.map f, e0.2), ⟨e0, he0, rfl⟩, List.mem_map.mpr ⟨a, ha, rfl⟩⟩

/-! ## `selected` -/

theorem selected_of_ne_nil (sm : Setmap) {ps : List String} (h : ps ≠ []) : selected sm ps = ps := by
  cases ps with
  | nil => exact absurd rfl h
  | cons a t => rfl

theorem selected_nil (sm : Setmap) : selected sm [] = platformsOf sm := rfl

theorem selected_perm {sm sm' : Setmap} {ps ps' : List String} (h : sm.Perm sm')
    (hp : ps.Perm ps') : (selected sm ps).Perm (selected sm' ps') := by
  cases ps with
  | nil =>
    have : ps' = [] := List.Perm.nil_eq hp |>.symm
    subst this
    exact platformsOf_perm h
  | cons a t =>
    have hne : ps' ≠ [] := by
      intro h0; subst h0; exact absurd hp.length_eq (by simp)
    rw [selected_of_ne_nil _ hne]
    exact hp

theorem selected_scale (k : Nat) (sm : Setmap) (ps : List String) :
    selected (scale k sm) ps = selected sm ps := by
  simp only [selected, platformsOf_scale]

theorem selected_rename {f : String → String} (hf : Function.Injective f) (sm : Setmap)
    (ps : List String) : (selected (rename f sm) (ps.map f)).Perm ((selected sm ps).map f) := by
  cases ps with
  | nil => exact platformsOf_rename hf sm
  | cons a t => exact List.Perm.refl _

/-! ## coverage -/

theorem coverage0_nonneg (sm : Setmap) (ps : List String) : 0 ≤ coverage0 sm ps := by
  unfold coverage0; positivity

theorem coverage0_le (sm : Setmap) (ps : List String) : coverage0 sm ps ≤ 100 := by
  unfold coverage0
  have h : (usedBy sm ps : ℚ) / (total sm : ℚ) ≤ 1 :=
    div_le_one_of_le₀ (by exact_mod_cast usedBy_le_total sm ps) (by positivity)
  linarith

theorem coverage0_congr {sm sm' : Setmap} {ps ps' : List String}
    (hu : usedBy sm ps = usedBy sm' ps') (ht : total sm = total sm') :
    coverage0 sm ps = coverage0 sm' ps' := by
  unfold coverage0; rw [hu, ht]

theorem coverage0_set (sm : Setmap) {ps ps' : List String} (h : ∀ p, p ∈ ps ↔ p ∈ ps') :
    coverage0 sm ps = coverage0 sm ps' :=
  coverage0_congr (usedBy_congr sm h) rfl

theorem coverage0_perm {sm sm' : Setmap} (h : sm.Perm sm') (ps : List String) :
    coverage0 sm ps = coverage0 sm' ps :=
  coverage0_congr (usedBy_perm h ps) (total_perm h)

theorem coverage0_scale {k : Nat} (hk : 0 < k) (sm : Setmap) (ps : List String) :
    coverage0 (scale k sm) ps = coverage0 sm ps := by
  unfold coverage0
  rw [usedBy_scale, total_scale]
  have hk' : (k : ℚ) ≠ 0 := by exact_mod_cast (Nat.pos_iff_ne_zero.mp hk)
  push_cast
  rw [mul_div_mul_left _ _ hk']

theorem coverage0_rename {f : String → String} (hf : Function.Injective f) (sm : Setmap)
    (ps : List String) : coverage0 (rename f sm) (ps.map f) = coverage0 sm ps :=
  coverage0_congr (usedBy_rename hf sm ps) (total_rename f sm)

theorem coverage_eq (sm : Setmap) (ps : List String) :
    coverage sm ps = if total sm = 0 then none else some (coverage0 sm (selected sm ps)) := rfl

/-! ## average coverage -/

/-- `averageCoverage` over an explicit platform list -/
def avgOn (sm : Setmap) (l : List String) : Option ℚ :=
  if l.length = 0 ∨ total sm = 0 then none
  else some ((l.map fun p => coverage0 sm [p]).sum / (l.length : ℚ))

theorem averageCoverage_eq (sm : Setmap) (ps : List String) :
    averageCoverage sm ps = avgOn sm (selected sm ps) := rfl

theorem avgOn_perm {sm sm' : Setmap} {l l' : List String} (h : sm.Perm sm') (hl : l.Perm l') :
    avgOn sm l = avgOn sm' l' := by
  unfold avgOn
  rw [hl.length_eq, total_perm h]
  have : (fun p => coverage0 sm [p]) = (fun p => coverage0 sm' [p]) :=
    funext fun p => coverage0_perm h [p]
  rw [this, (hl.map _).sum_eq]

theorem avgOn_scale {k : Nat} (hk : 0 < k) (sm : Setmap) (l : List String) :
    avgOn (scale k sm) l = avgOn sm l := by
  unfold avgOn
  have : (fun p => coverage0 (scale k sm) [p]) = (fun p => coverage0 sm [p]) :=
    funext fun p => coverage0_scale hk sm [p]
  rw [this, total_scale]
  have : k * total sm = 0 ↔ total sm = 0 := by
    rw [Nat.mul_eq_zero]; constructor
    · rintro (h | h); omega; exact h
    · intro h; exact Or.inr h
  simp only [this]

theorem avgOn_rename {f : String → String} (hf : Function.Injective f) (sm : Setmap)
    (l : List String) : avgOn (rename f sm) (l.map f) = avgOn sm l := by
  unfold avgOn
  rw [total_rename, List.length_map, List.map_map]
  have : ((fun p => coverage0 (rename f sm) [p]) ∘ f) = (fun p => coverage0 sm [p]) :=
    funext fun p => coverage0_rename hf sm [p]
  rw [this]

theorem sum_map_bounds {l : List String} {g : String → ℚ} {lo hi : ℚ}
    (h : ∀ p, lo ≤ g p ∧ g p ≤ hi) :
    lo * (l.length : ℚ) ≤ (l.map g).sum ∧ (l.map g).sum ≤ hi * (l.length : ℚ) := by
  induction l with
  | nil => simp
  | cons a l ih =>
    simp only [List.map_cons, List.sum_cons, List.length_cons]
    push_cast
    have := h a
    constructor <;> nlinarith [ih.1, ih.2]

/-! ## distance -/

theorem distance0_symm (sm : Setmap) (p q : String) : distance0 sm p q = distance0 sm q p := by
  unfold distance0; rw [xorCount_symm, unionCount_symm]

theorem distance0_nonneg (sm : Setmap) (p q : String) : 0 ≤ distance0 sm p q := by
  unfold distance0; positivity

theorem distance0_le_one (sm : Setmap) (p q : String) : distance0 sm p q ≤ 1 :=
  div_le_one_of_le₀ (by exact_mod_cast xorCount_le_unionCount sm p q) (by positivity)

theorem distance0_perm {sm sm' : Setmap} (h : sm.Perm sm') (p q : String) :
    distance0 sm p q = distance0 sm' p q := by
  unfold distance0; rw [xorCount_perm h, unionCount_perm h]

theorem distance0_scale {k : Nat} (hk : 0 < k) (sm : Setmap) (p q : String) :
    distance0 (scale k sm) p q = distance0 sm p q := by
  unfold distance0
  rw [xorCount_scale, unionCount_scale]
  have hk' : (k : ℚ) ≠ 0 := by exact_mod_cast (Nat.pos_iff_ne_zero.mp hk)
  push_cast
  rw [mul_div_mul_left _ _ hk']

theorem distance0_rename {f : String → String} (hf : Function.Injective f) (sm : Setmap)
    (p q : String) : distance0 (rename f sm) (f p) (f q) = distance0 sm p q := by
  unfold distance0; rw [xorCount_rename hf, unionCount_rename hf]

theorem unionCount_scale_eq_zero {k : Nat} (hk : 0 < k) (sm : Setmap) (p q : String) :
    unionCount (scale k sm) p q = 0 ↔ unionCount sm p q = 0 := by
  rw [unionCount_scale, Nat.mul_eq_zero]
  constructor
  · rintro (h | h); omega; exact h
  · intro h; exact Or.inr h

/-! ## pairs -/

theorem npairs_cons (a : String) (l : List String) : npairs (a :: l) = l.length + npairs l := by
  unfold npairs
  simp only [List.length_cons, Nat.add_sub_cancel]
  generalize l.length = n
  have h : (n + 1) * n = 2 * n + n * (n - 1) := by
    cases n with
    | zero => rfl
    | succ m => simp only [Nat.add_sub_cancel]; ring
  rw [h]
  omega

theorem npairs_eq_zero_iff (l : List String) : npairs l = 0 ↔ l.length < 2 := by
  cases l with
  | nil => simp [npairs]
  | cons a l =>
    rw [npairs_cons]
    cases l with
    | nil => simp [npairs]
    | cons b l => simp only [List.length_cons]; omega

theorem pairSum_cons (d : String → String → ℚ) (a : String) (l : List String) :
    pairSum d (a :: l) = (l.map (d a)).sum + pairSum d l := rfl

theorem pairSum_perm {d : String → String → ℚ} (hd : ∀ a b, d a b = d b a)
    {l l' : List String} (h : l.Perm l') : pairSum d l = pairSum d l' := by
  induction h with
  | nil => rfl
  | cons a hp ih => rw [pairSum_cons, pairSum_cons, ih, (hp.map _).sum_eq]
  | swap a b l =>
    simp only [pairSum_cons, List.map_cons, List.sum_cons]
    rw [hd a b]; ring
  | trans _ _ ih1 ih2 => exact ih1.trans ih2

theorem pairSum_congr {d d' : String → String → ℚ} (h : ∀ a b, d a b = d' a b) (l : List String) :
    pairSum d l = pairSum d' l := by
  have : d = d' := funext fun a => funext fun b => h a b
  rw [this]

theorem pairSum_map {d d' : String → String → ℚ} {f : String → String}
    (h : ∀ a b, d' (f a) (f b) = d a b) (l : List String) :
    pairSum d' (l.map f) = pairSum d l := by
  induction l with
  | nil => rfl
  | cons a l ih =>
    rw [List.map_cons, pairSum_cons, pairSum_cons, ih, List.map_map]
    have : (d' (f a) ∘ f) = d a := funext fun b => h a b
    rw [this]

theorem pairSum_bounds {d : String → String → ℚ} (h : ∀ a b, 0 ≤ d a b ∧ d a b ≤ 1)
    (l : List String) : 0 ≤ pairSum d l ∧ pairSum d l ≤ (npairs l : ℚ) := by
  induction l with
  | nil => simp [pairSum, npairs]
  | cons a l ih =>
    rw [pairSum_cons, npairs_cons]
    have hb := sum_map_bounds (l := l) (g := d a) (lo := 0) (hi := 1) (h a)
    push_cast
    constructor <;> linarith [ih.1, ih.2, hb.1, hb.2]

theorem pairsDefined_cons (sm : Setmap) (a : String) (l : List String) :
    pairsDefined sm (a :: l) = (l.all (fun b => unionCount sm a b != 0) && pairsDefined sm l) := rfl

theorem pairsDefined_iff_pairwise (sm : Setmap) (ps : List String) :
    pairsDefined sm ps = true ↔ List.Pairwise (fun a b => unionCount sm a b ≠ 0) ps := by
  induction ps with
  | nil => simp [pairsDefined]
  | cons a l ih =>
    rw [pairsDefined_cons, List.pairwise_cons, Bool.and_eq_true, ih, List.all_eq_true]
    simp

theorem pairsDefined_perm {sm sm' : Setmap} {l l' : List String} (h : sm.Perm sm')
    (hl : l.Perm l') : pairsDefined sm l = pairsDefined sm' l' := by
  rw [Bool.eq_iff_iff, pairsDefined_iff_pairwise, pairsDefined_iff_pairwise]
  have : (fun a b => unionCount sm a b ≠ 0) = (fun a b => unionCount sm' a b ≠ 0) := by
    funext a b; rw [unionCount_perm h]
  rw [this]
  exact hl.pairwise_iff (fun {x y} hxy => by rwa [unionCount_symm])

theorem pairsDefined_scale {k : Nat} (hk : 0 < k) (sm : Setmap) (l : List String) :
    pairsDefined (scale k sm) l = pairsDefined sm l := by
  rw [Bool.eq_iff_iff, pairsDefined_iff_pairwise, pairsDefined_iff_pairwise]
  have : (fun a b => unionCount (scale k sm) a b ≠ 0) = (fun a b => unionCount sm a b ≠ 0) := by
    funext a b; rw [Ne, Ne, unionCount_scale_eq_zero hk]
  rw [this]

theorem pairsDefined_rename {f : String → String} (hf : Function.Injective f) (sm : Setmap)
    (l : List String) : pairsDefined (rename f sm) (l.map f) = pairsDefined sm l := by
  induction l with
  | nil => rfl
  | cons a l ih =>
    rw [List.map_cons, pairsDefined_cons, pairsDefined_cons, ih, List.all_map]
    congr 2
    funext b
    simp only [Function.comp, unionCount_rename hf]

/-! ## divergence -/

theorem divergenceOn_perm' {sm sm' : Setmap} {l l' : List String} (h : sm.Perm sm')
    (hl : l.Perm l') : divergenceOn sm l = divergenceOn sm' l' := by
  unfold divergenceOn
  have hn : npairs l = npairs l' := by unfold npairs; rw [hl.length_eq]
  rw [hn, pairsDefined_perm h hl,
    pairSum_congr (fun a b => distance0_perm h a b) l,
    pairSum_perm (distance0_symm sm') hl]

theorem divergenceOn_scale {k : Nat} (hk : 0 < k) (sm : Setmap) (l : List String) :
    divergenceOn (scale k sm) l = divergenceOn sm l := by
  unfold divergenceOn
  rw [pairsDefined_scale hk, pairSum_congr (fun a b => distance0_scale hk sm a b) l]

theorem divergenceOn_rename {f : String → String} (hf : Function.Injective f) (sm : Setmap)
    (l : List String) : divergenceOn (rename f sm) (l.map f) = divergenceOn sm l := by
  unfold divergenceOn
  have hn : npairs (l.map f) = npairs l := by unfold npairs; rw [List.length_map]
  rw [hn, pairsDefined_rename hf, pairSum_map (fun a b => distance0_rename hf sm a b) l]

end CbiVerif.Metrics
