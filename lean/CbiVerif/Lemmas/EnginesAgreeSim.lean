import CbiVerif.Lemmas.EnginesAgreeBase
import CbiVerif.Lemmas.MultiFile
/-! Helper lemmas for `Props/C04Engines.lean`, part 2: the simulation between `Exclude.visitRef` (tree of node
indices, fuel per step, attribution at every node) and `Cond.visit` under `MF.sem (Inc.ops …)` (tree of labels,
fuel = include depth, attribution recorded per file after the walk), by induction on the include depth and, inside,
on the tree. -/
namespace CbiVerif.Engines
open CbiVerif.PP CbiVerif.Exclude CbiVerif.Cond CbiVerif.MF

/-! ## labels of a tree -/
mutual
def lblsT : Tree → List Lbl
  | .node l kids => l :: lblsTs kids
def lblsTs : List Tree → List Lbl
  | [] => []
  | t :: ts => lblsT t ++ lblsTs ts
end

/-- the label is the one `PP.labels` gives to node `l.id` of the array -/
def LblOK (nodes : Array PNode) (l : Lbl) : Prop :=
  ∃ n, nodes[l.id]? = some n ∧ l.kind = kindOf n.kind ∧ l.pay = payOf (kindOf n.kind) l.id

theorem lblOK_of_mem (nodes : List PNode) (l : Lbl) (h : l ∈ labels nodes) : LblOK nodes.toArray l := by
  simp only [labels, List.mem_map] at h
  obtain ⟨⟨n, i⟩, hmem, rfl⟩ := h
  have := List.mem_zipIdx hmem
  refine ⟨n, ?_, rfl, rfl⟩
  simp only [List.getElem?_toArray]
  have h2 := List.mem_zipIdx_iff_getElem?.mp hmem
  simpa using h2

/-! ## the relation -/

/-- attributions that are pending in the C04 engine: the nodes `out` of `file` walked so far, plus `E` (the
pending nodes of the including files) -/
def Pend (E : String → Nat → String → Prop) (file name : String) (out : List Nat) : String → Nat → String → Prop :=
  fun f i p => (f = file ∧ p = name ∧ i ∈ out) ∨ E f i p

structure RelW (E : String → Nat → String → Prop) (name : String) (l : Local) (w : Inc.World) : Prop where
  lerr : l.err = none
  werr : w.st.err = none
  plat : w.plat = cv l.plat
  nm : l.plat.name = name
  att : ∀ f i p, Has l.assoc f i p ↔ (Has w.st.assoc f i p ∨ E f i p)

structure Rel (E : String → Nat → String → Prop) (file name : String) (l : Local) (a : AState Inc.World) : Prop where
  cr : a.crash = false
  tk : a.taken = l.taken
  w : RelW (Pend E file name a.out) name l a.σ

/-- the C04 engine has failed (sticky) -/
def BadA (a : AState Inc.World) : Prop := a.crash = true ∨ a.σ.st.err ≠ none

def Out3 (E : String → Nat → String → Prop) (file name : String) (l : Local) (a : AState Inc.World) : Prop :=
  l.err ≠ none ∨ BadA a ∨ Rel E file name l a

theorem att_push {E : String → Nat → String → Prop} {file name : String} {out : List Nat} {la wa : AssocL}
    (h : ∀ f i p, Has la f i p ↔ (Has wa f i p ∨ Pend E file name out f i p)) (j : Nat) :
    ∀ f i p, Has (addAssoc la file j name) f i p ↔ (Has wa f i p ∨ Pend E file name (out ++ [j]) f i p) := by
  intro f i p
  rw [has_addAssoc, h]
  simp only [Pend, List.mem_append, List.mem_singleton]
  constructor
  · rintro ((h | (h | h)) | ⟨h1, h2, h3⟩)
    · exact .inl h
    · exact .inr (.inl ⟨h.1, h.2.1, .inl h.2.2⟩)
    · exact .inr (.inr h)
    · exact .inr (.inl ⟨h1, h3, .inr h2⟩)
  · rintro (h | (⟨h1, h2, h3 | h3⟩ | h))
    · exact .inl (.inl h)
    · exact .inl (.inr (.inl ⟨h1, h2, h3⟩))
    · exact .inr ⟨h1, h3, h2⟩
    · exact .inl (.inr (.inr h))

/-! ## stickiness of failure in the C04 engine -/

def ErrW (w : Inc.World) : Prop := w.st.err ≠ none

theorem ops_errW (fs : Inc.FS) (pfs : Inc.ParsedFS) : OpsInv ErrW (Inc.ops fs pfs) where
  evalIf file w i hw := by
    simp only [Inc.ops, Inc.opsWith]
    split
    · rcases Inc.evalCondW_cases w _ with h | ⟨e, h⟩ <;> rw [h]
      · exact hw
      · simp [ErrW, Inc.World.setErr]
    · exact hw
  enter file w i hw := by
    simp only [Inc.ops, Inc.opsWith, Inc.enter]
    cases h : w.st.err with
    | none => exact absurd h hw
    | some e => simpa [ErrW] using hw
  record w file out hw := by
    simp only [Inc.ops, Inc.opsWith, ErrW]
    rw [(Inc.foldl_addAssoc_frame out w.st file w.plat.name).2.2.2.2]
    exact hw
  noFuel w hw := by simp [Inc.ops, Inc.opsWith, ErrW, Inc.World.setErr]
  crash w hw := by simp [Inc.ops, Inc.opsWith, ErrW, Inc.World.setErr]

theorem sem_errW (fs : Inc.FS) (pfs : Inc.ParsedFS) (d : Nat) (file : String) :
    (∀ w p, ErrW w → ErrW ((MF.sem (Inc.ops fs pfs) d file).evalIf w p).2) ∧
    (∀ w p, ErrW w → ErrW ((MF.sem (Inc.ops fs pfs) d file).exec w p)) := by
  have h := sem_sim (fun a b => a = b ∧ ErrW a) (Inc.ops fs pfs) (Inc.ops fs pfs)
    ⟨fun f a b i hab => by obtain ⟨rfl, hp⟩ := hab; exact ⟨rfl, rfl, (ops_errW fs pfs).evalIf f a i hp⟩,
     fun f a b i hab => by obtain ⟨rfl, hp⟩ := hab; exact ⟨rfl, rfl, (ops_errW fs pfs).enter f a i hp⟩,
     fun _ => rfl,
     fun a b f o hab => by obtain ⟨rfl, hp⟩ := hab; exact ⟨rfl, (ops_errW fs pfs).record a f o hp⟩,
     fun a b hab => by obtain ⟨rfl, hp⟩ := hab; exact ⟨rfl, (ops_errW fs pfs).noFuel a hp⟩,
     fun a b hab => by obtain ⟨rfl, hp⟩ := hab; exact ⟨rfl, (ops_errW fs pfs).crash a hp⟩⟩ d file
  exact ⟨fun w p hw => (h.evalIf w w p ⟨rfl, hw⟩).2.2, fun w p hw => (h.exec w w p ⟨rfl, hw⟩).2⟩

mutual
theorem visit_bad (M : Sem Inc.World) (hM : (∀ w p, ErrW w → ErrW (M.evalIf w p).2) ∧ (∀ w p, ErrW w → ErrW (M.exec w p))) :
    ∀ (t : Tree) (a : AState Inc.World), BadA a → BadA (Cond.visit M a t)
  | .node l kids, a, h => by
    have h0 : BadA { a with out := a.out ++ [l.id] } := h
    cases hk : l.kind with
    | code => simp only [Cond.visit, hk]; exact h0
    | other =>
      simp only [Cond.visit, hk]
      rcases h with h | h
      · exact .inl h
      · exact .inr (hM.2 _ _ h)
    | endk =>
      simp only [Cond.visit, hk]
      cases a.taken with
      | nil => exact .inl rfl
      | cons t ts => exact h
    | ifk =>
      simp only [Cond.visit, hk]
      have h1 : BadA { a with σ := (M.evalIf a.σ l.pay).2, taken := (M.evalIf a.σ l.pay).1 :: a.taken, out := a.out ++ [l.id] } := by
        rcases h with h | h
        · exact .inl h
        · exact .inr (hM.1 _ _ h)
      split
      · exact visitList_bad M hM kids _ h1
      · exact h1
    | elifk =>
      simp only [Cond.visit, hk]
      cases a.taken with
      | nil => exact .inl rfl
      | cons t ts =>
        simp only []
        split
        · exact h
        · have h1 : BadA { a with σ := (M.evalIf a.σ l.pay).2, taken := (M.evalIf a.σ l.pay).1 :: ts, out := a.out ++ [l.id] } := by
            rcases h with h | h
            · exact .inl h
            · exact .inr (hM.1 _ _ h)
          split
          · exact visitList_bad M hM kids _ h1
          · exact h1
    | elsek =>
      simp only [Cond.visit, hk]
      cases a.taken with
      | nil => exact .inl rfl
      | cons t ts =>
        simp only []
        split
        · exact h
        · exact visitList_bad M hM kids _ h
theorem visitList_bad (M : Sem Inc.World) (hM : (∀ w p, ErrW w → ErrW (M.evalIf w p).2) ∧ (∀ w p, ErrW w → ErrW (M.exec w p))) :
    ∀ (ts : List Tree) (a : AState Inc.World), BadA a → BadA (Cond.visitList M a ts)
  | [], a, h => by simpa [Cond.visitList] using h
  | t :: ts, a, h => by
    simp only [Cond.visitList]
    exact visitList_bad M hM ts _ (visit_bad M hM t a h)
end

/-! ## stickiness of failure in the engine of `Model/Exclude.lean` -/

theorem visitListRef_err (S : Exclude.Sem) : ∀ (ts : List PTree) (m : Nat) (file : String) (cl : LClass) (nodes : Array PNode) (l : Local),
    l.err ≠ none → (visitListRef S m file cl nodes l ts).err ≠ none
  | [], m, file, cl, nodes, l, h => by cases m <;> simpa [visitListRef] using h
  | t :: ts, 0, file, cl, nodes, l, h => by simp [visitListRef, Local.fail]
  | t :: ts, m + 1, file, cl, nodes, l, h => by
    simp only [visitListRef]
    apply visitListRef_err S ts m
    cases m with
    | zero => simp [visitRef, Local.fail]
    | succ m =>
      obtain ⟨idx, kids⟩ := t
      simp only [visitRef]
      cases he : l.err with
      | none => exact absurd he h
      | some e => simpa using h

end CbiVerif.Engines
