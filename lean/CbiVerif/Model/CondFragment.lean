import CbiVerif.Model.ExpandPP
import CbiVerif.Model.EvalText
/-! C02 / C01, text → lexer → expander → evaluator with `defined` operators and object-like macros: the descriptors of a
parse tree and a macro table that `Props/C02Defined.lean` uses as hypotheses and that the driver (op `condfrag`) decides per
generated case — identifier leaves, the substitution of parse trees for macro names, and the executable condition "the
model expander turns the macro name `n` into the source tokens of the tree `b`".  Core Lean only. -/
namespace CbiVerif.CondFrag
open CbiVerif.PP CbiVerif.CExpr CbiVerif.EvalBridge

/-- what the evaluator reads of a token (`Props/C02Text.lean`, `evaluator_ignores_flags`) -/
def key (t : Tok) : TKind × String := (t.kind, t.text)

/-- the identifiers at `.ident` leaves (NOT the operands of `defined`) -/
def identLeaves : CExpr.Ast → List String
  | .ident n => [n]
  | .lit _ | .chr _ | .defd _ _ => []
  | .paren a => identLeaves a
  | .un _ a => identLeaves a
  | .bin _ l r => identLeaves l ++ identLeaves r
  | .tern c t e => identLeaves c ++ (identLeaves t ++ identLeaves e)

/-- a substitution: macro name ↦ the parse tree its full expansion is a spelling of -/
abbrev Sub := List (String × CExpr.Ast)

def Sub.get (s : Sub) (n : String) : Option CExpr.Ast := (s.find? (·.1 == n)).map (·.2)

/-- the parse tree with the trees of `s` in place of the identifier leaves they are given for; the operand of `defined` is
    never replaced -/
def substA (s : Sub) : CExpr.Ast → CExpr.Ast
  | .ident n => (s.get n).getD (.ident n)
  | .lit l => .lit l
  | .chr c => .chr c
  | .defd n p => .defd n p
  | .paren a => .paren (substA s a)
  | .un op a => .un op (substA s a)
  | .bin op l r => .bin op (substA s l) (substA s r)
  | .tern c t e => .tern (substA s c) (substA s t) (substA s e)

/-- the model of `MacroExpander.expand` turns the one-token list `n` (either `prev_white`) into a token list with the
    kinds and texts of the source tokens of `b` -/
def expandsTo (tbl : Table) (n : String) (b : CExpr.Ast) : Bool :=
  [false, true].all fun pw =>
    match CbiVerif.MX.cbiExpand tbl [⟨.ident, n, pw, true⟩] with
    | .ok r => r.map key == (renderSrc b).map key
    | _ => false

/-- an identifier leaf is inside the fragment: it is not spelled `defined`, and either it is no macro name (and is not
    substituted) or it is a macro whose full expansion spells the `defined`-free tree the substitution gives for it -/
def leafOK (tbl : Table) (s : Sub) (n : String) : Bool :=
  n != "defined" &&
  match tbl.get n, s.get n with
  | none, none => true
  | some _, some b => noDefined b && expandsTo tbl n b
  | _, _ => false

/-- the environment `defined` is decided in: the names of the table -/
def envOf (tbl : Table) : Env := fun n => (tbl.get n).isSome

/-- all hypotheses of `C02.cond_objmacro_partial` that concern the table, the tree and the substitution (the value
    hypothesis `cEval … = some v` apart); `objOK` = the decidable form of `MX.TblOK` -/
def inFragment (objOK : Bool) (maxLevel : Nat) (tbl : Table) (s : Sub) (a : CExpr.Ast) : Bool :=
  objOK && decide (tbl.length + 2 < maxLevel) &&
  (substA s a).grammatical && (substA s a).constsOK && !usesBigUnsuffixed (substA s a) &&
  (identLeaves a).all (leafOK tbl s)

end CbiVerif.CondFrag
