"""Several runs of the real command-line entry points in ONE interpreter.

    python clisession.py <steps.json> <results.json>          (PYTHONPATH = the checkout under test)

steps   = [{"mod": "codebasin" | "codebasin.tree" | "codebasin.coverage", "argv": [...], "cwd": dir}]
results = [{"rc": exit status, "out": stdout, "err": stderr, "log": contents of <cwd>/cbi.log or ""}]

Every step does what the console script does: `sys.argv = [mod] + argv; <module>.main()`, with `SystemExit` caught
for the exit status.  Between two steps the runner only (i) removes `cbi.log` and (ii) closes and detaches the
handlers the previous call attached to the `codebasin` logger (a caller who reuses the entry points has to do that);
no module is reloaded and no other state is touched, so whatever an entry point leaves behind in the process
(caches, mutated defaults, globals) is seen by the next step - that is the point.

This file must not import the harness: it runs in the child interpreter with the checkout first on sys.path.
"""
import contextlib
import importlib
import json
import logging
import os
import sys

MAIN = {"codebasin": "codebasin.__main__", "codebasin.tree": "codebasin.tree", "codebasin.coverage": "codebasin.coverage.__main__"}


def run_step(step, scratch):
    """stdout / stderr are captured at the file-descriptor level (the reports write to the `sys.stdout` object that
    existed when `codebasin.report` was imported, so replacing `sys.stdout` would lose them)"""
    os.chdir(step["cwd"])
    lp = os.path.join(step["cwd"], "cbi.log")
    if os.path.exists(lp):
        os.unlink(lp)
    po, pe = os.path.join(scratch, "step.out"), os.path.join(scratch, "step.err")
    rc = 0
    argv0 = sys.argv
    sys.stdout.flush()
    sys.stderr.flush()
    keep = os.dup(1), os.dup(2)
    fo, fe = os.open(po, os.O_WRONLY | os.O_CREAT | os.O_TRUNC), os.open(pe, os.O_WRONLY | os.O_CREAT | os.O_TRUNC)
    os.dup2(fo, 1)
    os.dup2(fe, 2)
    try:
        try:
            mod = importlib.import_module(MAIN[step["mod"]])
            sys.argv = [step["mod"]] + list(step["argv"])
            mod.main()
        except SystemExit as e:
            rc = e.code if isinstance(e.code, int) else (0 if e.code is None else 1)
        except BaseException as e:  # noqa  (main() catches Exception itself; anything else is reported, not fatal)
            rc = f"{type(e).__name__}: {e}"
    finally:
        sys.argv = argv0
        sys.stdout.flush()
        sys.stderr.flush()
        os.dup2(keep[0], 1)
        os.dup2(keep[1], 2)
        for fd in (fo, fe) + keep:
            os.close(fd)
    lg = logging.getLogger("codebasin")
    for h in list(lg.handlers):
        lg.removeHandler(h)
        with contextlib.suppress(Exception):
            h.close()
    log = ""
    if os.path.exists(lp):
        with open(lp) as f:
            log = f.read()
        os.unlink(lp)
    return {"rc": rc, "out": open(po).read(), "err": open(pe, errors="replace").read(), "log": log}


def main():
    steps = json.load(open(sys.argv[1]))
    res_path = sys.argv[2]
    import tempfile

    with tempfile.TemporaryDirectory(prefix="cbisession_") as scratch:
        results = [run_step(s, scratch) for s in steps]
    with open(res_path, "w") as f:
        json.dump(results, f)


if __name__ == "__main__":
    main()
