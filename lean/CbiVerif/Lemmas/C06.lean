import CbiVerif.Lemmas.Setmap
import CbiVerif.Lemmas.FileTree
/-! helper lemmas for C06: the two measures of a setmap (count of a key, presence of a key), `report.files` as a
    sequence of insertions, `--prune` -/
namespace CbiVerif.FTm
open CbiVerif.SM

/-- the count of platform set `k` is additive under `merge` -/
def getMeas (k : Key) : Meas Setmap Nat where
  vadd := merge
  zero := []
  μ := fun s => get s k
  op := (· + ·)
  e := 0
  assoc := Nat.add_assoc
  comm := Nat.add_comm
  op_e := Nat.add_zero
  μ_add := fun a b => get_merge a b k
  μ_zero := rfl

/-- the presence of platform set `k` among the keys is additive (∨) under `merge` -/
def hasMeas (k : Key) : Meas Setmap Bool where
  vadd := merge
  zero := []
  μ := fun s => has s k
  op := (· || ·)
  e := false
  assoc := Bool.or_assoc
  comm := Bool.or_comm
  op_e := Bool.or_false
  μ_add := fun a b => has_merge a b k
  μ_zero := rfl

theorem msum_get (k : Key) (l : List Nat) : msum (getMeas k) l = l.sum := by
  induction l with
  | nil => rfl
  | cons x xs ih =>
    show x + msum (getMeas k) xs = _
    rw [ih]; simp

theorem msum_has (k : Key) (l : List Bool) : msum (hasMeas k) l = l.any id := by
  induction l with
  | nil => rfl
  | cons x xs ih =>
    show (x || msum (hasMeas k) xs) = _
    rw [ih]; simp

def toIns (f : FileRec) : Ins Setmap := ⟨f.path, f.link, fileSetmap f⟩

/-- the files `report.files` inserts -/
def kept (prune : Bool) (f : FileRec) : Bool := !(prune && !anyPlatform (fileSetmap f))

/-- some node of the file is associated with a platform -/
def usedFile (f : FileRec) : Bool := f.nodes.any fun n => !n.plats.isEmpty

theorem filesTree_fold (prune : Bool) (fs : List FileRec) (t : FileTree) :
    fs.foldl (fun t f =>
      let sm := fileSetmap f
      if prune && !anyPlatform sm then t else insertRoot merge [] sm f.link f.path t) t
    = ((fs.filter (kept prune)).map toIns).foldl (fun t i => insertRoot merge [] i.v i.link i.path t) t := by
  induction fs generalizing t with
  | nil => rfl
  | cons f fs ih =>
    by_cases h : (prune && !anyPlatform (fileSetmap f)) = true
    · have hk : kept prune f = false := by simp [kept, h]
      simp only [List.foldl_cons, List.filter_cons, hk, Bool.false_eq_true, if_false, h, if_true]
      exact ih _
    · have hk : kept prune f = true := by
        have h' : (prune && !anyPlatform (fileSetmap f)) = false := by simpa using h
        simp [kept, h']
      simp only [List.foldl_cons, List.filter_cons, hk, if_true, h, if_false, List.map_cons]
      exact ih _

theorem filesTree_eq_build (root : String) (prune : Bool) (fs : List FileRec) :
    filesTree root prune fs = build merge [] root ((fs.filter (kept prune)).map toIns) := by
  unfold filesTree build
  exact filesTree_fold prune fs _

theorem anyPlatform_iff (sm : Setmap) : anyPlatform sm = true ↔ ∃ k, has sm k = true ∧ k ≠ [] := by
  induction sm with
  | nil => simp [anyPlatform, has]
  | cons e rest ih =>
    unfold anyPlatform at ih ⊢
    simp only [List.any_cons, Bool.or_eq_true, ih, has, decide_eq_true_eq, Bool.not_eq_true', List.isEmpty_eq_false_iff]
    constructor
    · rintro (h | ⟨k, hk, hne⟩)
      · exact ⟨e.1, Or.inl rfl, h⟩
      · exact ⟨k, Or.inr hk, hne⟩
    · rintro ⟨k, hk | hk, hne⟩
      · exact Or.inl (hk ▸ hne)
      · exact Or.inr ⟨k, hk, hne⟩

theorem anyPlatform_fileSetmap (f : FileRec) : anyPlatform (fileSetmap f) = usedFile f := by
  rw [Bool.eq_iff_iff, anyPlatform_iff]
  unfold usedFile fileSetmap
  simp only [has_addNodes, has, Bool.false_or, List.any_eq_true, decide_eq_true_eq, Bool.not_eq_true',
    List.isEmpty_eq_false_iff]
  constructor
  · rintro ⟨k, ⟨n, hn, hk⟩, hne⟩
    exact ⟨n, hn, hk ▸ hne⟩
  · rintro ⟨n, hn, hne⟩
    exact ⟨n.plats, ⟨n, hn, rfl⟩, hne⟩

theorem kept_true (f : FileRec) : kept true f = usedFile f := by
  simp [kept, anyPlatform_fileSetmap]

theorem kept_false (f : FileRec) : kept false f = true := by simp [kept]

theorem build_val (root : String) (ins : List (Ins Setmap)) :
    ∀ (v : Setmap) (ks : List FileTree),
      (ins.foldl (fun t i => insertRoot merge [] i.v i.link i.path t) (.dir root v ks)).val
        = ins.foldl (fun s i => if i.link then s else merge s i.v) v := by
  induction ins with
  | nil => intro v ks; rfl
  | cons i rest ih =>
    intro v ks
    simp only [List.foldl_cons]
    have : insertRoot merge [] i.v i.link i.path (.dir root v ks)
        = .dir root (if i.link then v else merge v i.v) (insertKids merge [] i.v i.link i.path ks) := rfl
    rw [this, ih]

theorem nodup_fold_merge (ins : List (Ins Setmap)) (v : Setmap) (h : (keys v).Nodup) :
    (keys (ins.foldl (fun s i => if i.link then s else merge s i.v) v)).Nodup := by
  induction ins generalizing v with
  | nil => exact h
  | cons i rest ih =>
    simp only [List.foldl_cons]
    apply ih
    split
    · exact h
    · exact nodup_merge _ _ h

/-- with distinct keys, an item of the dict is its value -/
theorem get_of_mem (sm : Setmap) (h : (keys sm).Nodup) (k : Key) (c : Nat) (hm : (k, c) ∈ sm) : get sm k = c := by
  induction sm with
  | nil => simp at hm
  | cons e rest ih =>
    have hn : (e.1 :: keys rest).Nodup := h
    rw [List.nodup_cons] at hn
    rcases List.mem_cons.mp hm with he | hr
    · subst he
      have h0 : get rest k = 0 := by
        have hk : has rest k = false := by
          cases hh : has rest k
          · rfl
          · exact absurd ((has_iff_mem_keys rest k).mp hh) hn.1
        clear ih hm h hn
        induction rest with
        | nil => rfl
        | cons a r ihr =>
          simp only [has, Bool.or_eq_false_iff, decide_eq_false_iff_not] at hk
          simp only [SM.get, hk.1, if_false, Nat.zero_add]
          exact ihr hk.2
      simp [SM.get, h0]
    · have hne : ¬ e.1 = k := by
        intro h'
        apply hn.1
        rw [h']
        exact List.mem_map.mpr ⟨(k, c), hr, rfl⟩
      simp only [SM.get, hne, if_false, Nat.zero_add]
      exact ih hn.2 hr

theorem perm_any {α : Type} {a b : List α} (p : α → Bool) (h : a.Perm b) : a.any p = b.any p := by
  rw [Bool.eq_iff_iff, List.any_eq_true, List.any_eq_true]
  constructor
  · rintro ⟨x, hx, hp⟩; exact ⟨x, h.mem_iff.mp hx, hp⟩
  · rintro ⟨x, hx, hp⟩; exact ⟨x, h.mem_iff.mpr hx, hp⟩

theorem sum_nonlink (fs : List FileRec) (g : FileRec → Nat) :
    (fs.map fun f => if f.link then 0 else g f).sum = ((fs.filter fun f => !f.link).map g).sum := by
  induction fs with
  | nil => rfl
  | cons f fs ih =>
    simp only [List.map_cons, List.sum_cons, List.filter_cons, ih]
    cases f.link <;> simp

theorem any_nonlink (fs : List FileRec) (g : FileRec → Bool) :
    (fs.any fun f => !f.link && g f) = (fs.filter fun f => !f.link).any g := by
  induction fs with
  | nil => rfl
  | cons f fs ih =>
    simp only [List.any_cons, List.filter_cons, ih]
    cases f.link <;> simp

theorem has_fileSetmap (f : FileRec) (k : Key) : has (fileSetmap f) k = f.nodes.any fun n => decide (n.plats = k) := by
  unfold fileSetmap; rw [has_addNodes]; simp [has]

end CbiVerif.FTm
