import CbiVerif.Model.Tree
/-! Lemmas for `C01.build_eq`: the zipper model of `SourceTree.insert` builds the intended tree
for every structured program (mutual induction over `Item/Block/Conts`) and never raises. -/
namespace CbiVerif.Cond

def Zip.addKids (z : Zip) (ts : List Tree) : Zip :=
  match z.spine with
  | [] => { z with rootKids := z.rootKids ++ ts }
  | f :: rest => { z with spine := { f with kids := f.kids ++ ts } :: rest }

def Zip.settle (z : Zip) : Zip :=
  match z.spine with
  | [] => z
  | f :: _ => if f.lbl.opens then z else z.up

def Zip.Good (z : Zip) : Prop :=
  z.crashed = false ∧
  match z.spine with
  | [] => True
  | f :: _ => f.lbl.opens = true ∨ f.kids = []

theorem insert_leaf (z : Zip) (l : Lbl) (hz : z.Good) (hl : l.opens = false) (hc : l.isCont = false) (he : l.isEnd = false) :
    (z.insert l).settle = z.settle.addKids [.node l []] ∧ (z.insert l).Good := by
  have hs0 : l.isStart = false := by
    unfold Lbl.opens at hl; simp at hl; exact hl.1
  obtain ⟨rk, sp, cr⟩ := z
  obtain ⟨hcr, hz⟩ := hz
  simp only at hcr
  subst hcr
  unfold Zip.insert
  cases sp with
  | nil =>
    simp [Zip.push, Zip.settle, hl, Zip.up, Zip.addKids, Frame.close, Zip.Good]
  | cons f rest =>
    simp only [hc, he, hs0, Bool.or_self, Bool.false_eq_true, if_false]
    by_cases ho : f.lbl.opens = true
    · simp [ho, Zip.push, Zip.settle, hl, Zip.up, Zip.addKids, Frame.close, Zip.Good]
    · simp only [ho]
      have hk : f.kids = [] := by
        simp at hz; rcases hz with h | h
        · exact absurd h ho
        · exact h
      cases rest with
      | nil => simp [Zip.push, Zip.settle, hl, ho, Zip.up, Zip.addKids, Frame.close, Zip.Good, hk]
      | cons g rest' => simp [Zip.push, Zip.settle, hl, ho, Zip.up, Zip.addKids, Frame.close, Zip.Good, hk]

theorem insertAll_append (z : Zip) (xs ys : List Lbl) :
    insertAll z (xs ++ ys) = insertAll (insertAll z xs) ys := by
  simp [insertAll, List.foldl_append]

theorem addKids_nil (z : Zip) : z.addKids [] = z := by
  obtain ⟨rk, sp, cr⟩ := z
  cases sp <;> simp [Zip.addKids]

theorem addKids_append (z : Zip) (xs ys : List Tree) :
    (z.addKids xs).addKids ys = z.addKids (xs ++ ys) := by
  obtain ⟨rk, sp, cr⟩ := z
  cases sp <;> simp [Zip.addKids]

/-- inserting an `#if` line: pushes an opening frame under the current parent -/
theorem insert_start (z : Zip) (l : Lbl) (hz : z.Good) (hl : l.isStart = true) :
    z.insert l = z.settle.push l := by
  obtain ⟨rk, sp, cr⟩ := z
  obtain ⟨hcr, hz⟩ := hz
  simp only at hcr
  subst hcr
  unfold Zip.insert
  cases sp with
  | nil => simp [Zip.settle]
  | cons f rest =>
    simp only [hl, if_true, Bool.false_eq_true, if_false]
    by_cases ho : f.lbl.opens = true
    · simp [ho, Zip.settle]
    · simp [ho, Zip.settle]

/-- inserting a continuation / end line when the current parent is the opening frame `f`:
    `f` is closed into its own parent and the new line becomes its sibling. -/
theorem insert_contEnd (z : Zip) (l : Lbl) (hz : z.Good) (hl : (l.isCont || l.isEnd) = true)
    (f : Frame) (rest : List Frame) (hs : z.settle.spine = f :: rest) (hf : f.lbl.opens = true) :
    z.insert l = z.settle.up.push l := by
  have hs0 : l.isStart = false := by
    unfold Lbl.isCont Lbl.isEnd at hl; unfold Lbl.isStart; cases hk : l.kind <;> simp_all
  have hcr : z.crashed = false := hz.1
  unfold Zip.insert
  cases hsp : z.spine with
  | nil => simp [Zip.settle, hsp] at hs
  | cons g rest' =>
    simp only [hcr, hs0, hl, if_true, Bool.false_eq_true, if_false]
    by_cases ho : g.lbl.opens = true
    · have : z.settle = z := by simp [Zip.settle, hsp, ho]
      rw [this]
      have hw : z.walk (g :: rest').length = z := by
        simp [Zip.walk, hsp, ho]
      rw [hw, hsp]
    · have hset : z.settle = z.up := by simp [Zip.settle, hsp, ho]
      rw [hset] at hs ⊢
      have hw : z.walk (g :: rest').length = z.up := by
        simp only [List.length_cons, Zip.walk, hsp, ho, Bool.false_eq_true, if_false]
        cases hr : rest'.length with
        | zero =>
          have : rest' = [] := List.length_eq_zero_iff.mp hr
          subst this
          simp [Zip.up, hsp] at hs
        | succ n =>
          simp [Zip.walk, hs, hf]
      rw [hw, hs]

theorem push_addKids_up (z : Zip) (l : Lbl) (ts : List Tree) :
    ((z.push l).addKids ts).up = z.addKids [.node l ts] := by
  obtain ⟨rk, sp, cr⟩ := z
  cases sp <;> simp [Zip.push, Zip.addKids, Zip.up, Frame.close]

theorem push_settle_open (z : Zip) (l : Lbl) (h : l.opens = true) : (z.push l).settle = z.push l := by
  simp [Zip.push, Zip.settle, h]

theorem push_settle_leaf (z : Zip) (l : Lbl) (h : l.opens = false) :
    (z.push l).settle = z.addKids [.node l []] := by
  have := push_addKids_up z l []
  rw [addKids_nil] at this
  simp [Zip.settle, Zip.push, h] at this ⊢
  exact this

theorem settle_crashed (z : Zip) : z.settle.crashed = z.crashed := by
  obtain ⟨rk, sp, cr⟩ := z
  cases sp with
  | nil => rfl
  | cons f rest =>
    simp only [Zip.settle]
    split
    · rfl
    · cases rest <;> rfl

theorem up_crashed (z : Zip) : z.up.crashed = z.crashed := by
  obtain ⟨rk, sp, cr⟩ := z
  cases sp with
  | nil => rfl
  | cons f rest => cases rest <;> rfl

theorem good_push (z : Zip) (l : Lbl) (h : z.crashed = false) : (z.push l).Good := by
  simp [Zip.Good, Zip.push, h]

mutual
theorem Item.build (i : Item) (z : Zip) (hz : z.Good) :
    (insertAll z i.lines).settle = z.settle.addKids i.trees ∧ (insertAll z i.lines).Good := by
  cases i with
  | code id =>
    simp only [Item.lines, Item.trees, insertAll, List.foldl]
    exact insert_leaf z _ hz rfl rfl rfl
  | dir id p =>
    simp only [Item.lines, Item.trees, insertAll, List.foldl]
    exact insert_leaf z _ hz rfl rfl rfl
  | cond id p b rest =>
    simp only [Item.lines, Item.trees]
    rw [show (⟨id, .ifk, p⟩ :: (b.lines ++ rest.lines)) = [⟨id, .ifk, p⟩] ++ (b.lines ++ rest.lines) from rfl,
        insertAll_append, insertAll_append]
    have h1 : insertAll z [⟨id, .ifk, p⟩] = z.settle.push ⟨id, .ifk, p⟩ := by
      simp only [insertAll, List.foldl]; exact insert_start z _ hz rfl
    rw [h1]
    have hc0 : z.settle.crashed = false := by rw [settle_crashed]; exact hz.1
    obtain ⟨hb, hbg⟩ := Block.build b (z.settle.push ⟨id, .ifk, p⟩) (good_push _ _ hc0)
    rw [push_settle_open _ _ rfl] at hb
    have hsp : (insertAll (z.settle.push ⟨id, .ifk, p⟩) b.lines).settle.spine
        = ⟨⟨id, .ifk, p⟩, b.trees⟩ :: z.settle.spine := by
      rw [hb]; simp [Zip.addKids, Zip.push]
    obtain ⟨hc, hcg⟩ := Conts.build rest _ hbg _ _ hsp rfl
    refine ⟨?_, hcg⟩
    rw [hc, hb, push_addKids_up, addKids_append]
    rfl
theorem Block.build (b : Block) (z : Zip) (hz : z.Good) :
    (insertAll z b.lines).settle = z.settle.addKids b.trees ∧ (insertAll z b.lines).Good := by
  cases b with
  | nil => simpa [Block.lines, Block.trees, insertAll, addKids_nil] using hz
  | cons i b =>
    simp only [Block.lines, Block.trees]
    rw [insertAll_append]
    obtain ⟨hi, hig⟩ := Item.build i z hz
    obtain ⟨hb, hbg⟩ := Block.build b _ hig
    exact ⟨by rw [hb, hi, addKids_append], hbg⟩
theorem Conts.build (c : Conts) (z : Zip) (hz : z.Good) (f : Frame) (rest : List Frame)
    (hs : z.settle.spine = f :: rest) (hf : f.lbl.opens = true) :
    (insertAll z c.lines).settle = z.settle.up.addKids c.trees ∧ (insertAll z c.lines).Good := by
  have hc0 : z.settle.up.crashed = false := by rw [up_crashed, settle_crashed]; exact hz.1
  cases c with
  | endif id =>
    simp only [Conts.lines, Conts.trees, insertAll, List.foldl]
    rw [insert_contEnd z _ hz rfl f rest hs hf]
    exact ⟨push_settle_leaf _ _ rfl, good_push _ _ hc0⟩
  | elif id p b r =>
    simp only [Conts.lines, Conts.trees]
    rw [show (⟨id, .elifk, p⟩ :: (b.lines ++ r.lines)) = [⟨id, .elifk, p⟩] ++ (b.lines ++ r.lines) from rfl,
        insertAll_append, insertAll_append]
    have h1 : insertAll z [⟨id, .elifk, p⟩] = z.settle.up.push ⟨id, .elifk, p⟩ := by
      simp only [insertAll, List.foldl]; exact insert_contEnd z _ hz rfl f rest hs hf
    rw [h1]
    obtain ⟨hb, hbg⟩ := Block.build b (z.settle.up.push ⟨id, .elifk, p⟩) (good_push _ _ hc0)
    rw [push_settle_open _ _ rfl] at hb
    have hsp : (insertAll (z.settle.up.push ⟨id, .elifk, p⟩) b.lines).settle.spine
        = ⟨⟨id, .elifk, p⟩, b.trees⟩ :: z.settle.up.spine := by
      rw [hb]; simp [Zip.addKids, Zip.push]
    obtain ⟨hc, hcg⟩ := Conts.build r _ hbg _ _ hsp rfl
    refine ⟨?_, hcg⟩
    rw [hc, hb, push_addKids_up, addKids_append]
    rfl
  | els id b e =>
    simp only [Conts.lines, Conts.trees]
    rw [show (⟨id, .elsek, 0⟩ :: (b.lines ++ [⟨e, .endk, 0⟩])) = [⟨id, .elsek, 0⟩] ++ (b.lines ++ [⟨e, .endk, 0⟩]) from rfl,
        insertAll_append, insertAll_append]
    have h1 : insertAll z [⟨id, .elsek, 0⟩] = z.settle.up.push ⟨id, .elsek, 0⟩ := by
      simp only [insertAll, List.foldl]; exact insert_contEnd z _ hz rfl f rest hs hf
    rw [h1]
    obtain ⟨hb, hbg⟩ := Block.build b (z.settle.up.push ⟨id, .elsek, 0⟩) (good_push _ _ hc0)
    rw [push_settle_open _ _ rfl] at hb
    have hsp : (insertAll (z.settle.up.push ⟨id, .elsek, 0⟩) b.lines).settle.spine
        = ⟨⟨id, .elsek, 0⟩, b.trees⟩ :: z.settle.up.spine := by
      rw [hb]; simp [Zip.addKids, Zip.push]
    have hc1 : (insertAll (z.settle.up.push ⟨id, .elsek, 0⟩) b.lines).settle.up.crashed = false := by
      rw [up_crashed, settle_crashed]; exact hbg.1
    simp only [insertAll, List.foldl] at hsp hbg hb hc1 ⊢
    rw [insert_contEnd _ _ hbg rfl _ _ hsp rfl]
    refine ⟨?_, good_push _ _ hc1⟩
    rw [push_settle_leaf _ _ rfl, hb, push_addKids_up, addKids_append]
    rfl
end

theorem finish_settled (zf : Zip) (ts : List Tree) (h : zf.settle = { rootKids := ts, spine := [], crashed := false })
    (hg : zf.Good) :
    (if zf.crashed then none else some (zf.closeAll zf.spine.length)) = some ts := by
  obtain ⟨rk, sp, cr⟩ := zf
  obtain ⟨hcr, hg⟩ := hg
  simp only at hcr
  subst hcr
  simp only [Bool.false_eq_true, if_false, Option.some.injEq]
  cases sp with
  | nil =>
    simp only [Zip.settle] at h
    simp [Zip.closeAll]; simpa using congrArg Zip.rootKids h
  | cons f rest =>
    simp only [Zip.settle] at h
    by_cases ho : f.lbl.opens = true
    · simp [ho] at h
    · simp only [ho, Bool.false_eq_true, if_false] at h
      cases rest with
      | nil =>
        simp only [Zip.up] at h
        simp only [List.length, Zip.closeAll, Zip.up]
        simpa using congrArg Zip.rootKids h
      | cons g rest' =>
        have := congrArg Zip.spine h
        simp [Zip.up] at this

/-- the zipper model of `SourceTree.insert` builds exactly the expected tree, without raising -/
theorem build_eq_aux (b : Block) : build b.lines = some b.trees := by
  obtain ⟨h, hg⟩ := Block.build b Zip.empty (by simp [Zip.Good, Zip.empty])
  simp only [Zip.settle, Zip.addKids, Zip.empty, List.nil_append] at h
  exact finish_settled _ _ h hg

end CbiVerif.Cond
