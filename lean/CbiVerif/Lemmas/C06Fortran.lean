import CbiVerif.Model.C06Fortran
import CbiVerif.Lemmas.C06ComposeText
import CbiVerif.Props.C17
/-! Facts about the language-dispatching front end of the composed C06 pipeline (`Model/C06Fortran.lean`): what a successful
run of `analyseG` consists of, and per file what C05 (`partition`, `nodes_of_ok`, `main`) resp. C17 (`structural_*`,
`lines_eq_ref`) say about the node list the file's parser returns. -/
namespace CbiVerif.C06L
open CbiVerif.SM CbiVerif.C06C

/-! ## `analyseG` -/

theorem analyse_eq_analyseG : C06C.analyse = analyseG (fun f => parseSrc f.text) := rfl

theorem mapE_congr {α β ε : Type} (f g : α → Except ε β) : ∀ (l : List α), (∀ a ∈ l, f a = g a) → mapE f l = mapE g l := by
  intro l
  induction l with
  | nil => intro _; rfl
  | cons a as ih =>
    intro h
    simp only [mapE]
    rw [h a List.mem_cons_self, ih (fun b hb => h b (List.mem_cons_of_mem _ hb))]

theorem analyseG_ok (parse : SrcFile → Except PP.Err Parsed) (files : List SrcFile) (plats : List Plat) (fs : List FileRec)
    (h : analyseG parse files plats = .ok fs) :
    ∃ ps pr, List.Forall₂ (fun f p => parse f = .ok p) files ps ∧
      List.Forall₂ (fun pl r => runPlat files ps pl = .ok r) plats pr ∧
      fs = (files.zip ps).map (mkRec pr) := by
  unfold analyseG at h
  cases h1 : mapE parse files with
  | error e => simp [h1] at h
  | ok ps =>
    simp only [h1] at h
    cases h2 : mapE (runPlat files ps) plats with
    | error e => simp [h2] at h
    | ok pr =>
      simp only [h2, Except.ok.injEq] at h
      exact ⟨ps, pr, mapE_forall₂ _ _ _ h1, mapE_forall₂ _ _ _ h2, h.symm⟩

/-- the pairing of files and records every theorem of `Props/C06Fortran.lean` starts from -/
theorem analyseG_pairs (parse : SrcFile → Except PP.Err Parsed) (files : List SrcFile) (plats : List Plat) (fs : List FileRec)
    (h : analyseG parse files plats = .ok fs) :
    ∃ ps pr, List.Forall₂ (fun pl r => runPlat files ps pl = .ok r) plats pr ∧
      List.Forall₂ (fun f r => ∃ p, (f, p) ∈ files.zip ps ∧ parse f = .ok p ∧ r = mkRec pr (f, p)) files fs := by
  obtain ⟨ps, pr, hps, hpr, rfl⟩ := analyseG_ok parse files plats fs h
  exact ⟨ps, pr, hpr, forall₂_zip_map _ (mkRec pr) files ps hps⟩

/-! ## the Fortran front end -/

theorem pnodeOf_lines (n : Fortran.Node) (q : PP.PNode) (h : Fortran.pnodeOf n = .ok q) : q.lines = n.lines := by
  unfold Fortran.pnodeOf at h
  split at h
  · exact parseDirective_lines _ _ _ h
  · simp only [Except.ok.injEq] at h; subst h; rfl

theorem mapM_pnodeOf_forall₂ : ∀ (ns : List Fortran.Node) (pn : List PP.PNode),
    ns.mapM Fortran.pnodeOf = .ok pn → List.Forall₂ (fun n q => q.lines = n.lines) ns pn := by
  intro ns
  induction ns with
  | nil =>
    intro pn h
    simp only [List.mapM_nil, pure, Except.pure, Except.ok.injEq] at h
    subst h; exact .nil
  | cons n ns ih =>
    intro pn h
    simp only [List.mapM_cons, bind, Except.bind] at h
    cases hq : Fortran.pnodeOf n with
    | error e => simp [hq] at h
    | ok q =>
      simp only [hq] at h
      cases hr : ns.mapM Fortran.pnodeOf with
      | error e => simp [hr] at h
      | ok r =>
        simp only [hr, pure, Except.pure, Except.ok.injEq] at h
        subst h
        exact .cons (pnodeOf_lines n q hq) (ih r hr)

/-- a successful `fParseSrc`: the C17 line source accepts the text, the nodes are C17's groups, the payload list is C17's
    `fortranPNodes` (the node list `C17.conditionals_as_C` is about), and the tree builds -/
theorem fParseSrc_ok (t : List Char) (p : Parsed) (h : fParseSrc t = .ok p) :
    ∃ lls, Fortran.fortranSource (String.ofList t) = .ok lls ∧ p.nodes = (Fortran.group lls).map fNode ∧
      Fortran.fortranPNodes (String.ofList t) = .ok p.pnodes ∧
      List.Forall₂ (fun n q => q.lines = n.lines) p.nodes p.pnodes ∧
      ¬ (Cond.build (PP.labels p.pnodes)).isNone = true := by
  unfold fParseSrc at h
  cases hs : Fortran.fortranSource (String.ofList t) with
  | error e => simp [hs] at h
  | ok lls =>
    simp only [hs] at h
    cases hm : (Fortran.group lls).mapM Fortran.pnodeOf with
    | error e => simp [hm] at h
    | ok pn =>
      simp only [hm] at h
      split at h
      · simp at h
      · rename_i hb
        simp only [Except.ok.injEq] at h
        subst h
        refine ⟨lls, rfl, rfl, ?_, ?_, hb⟩
        · unfold Fortran.fortranPNodes; simp only [hs]; exact hm
        · have := mapM_pnodeOf_forall₂ _ _ hm
          show List.Forall₂ _ ((Fortran.group lls).map fNode) pn
          rw [List.forall₂_map_left_iff]
          exact this

theorem fNode_lines (ns : List Fortran.Node) : (ns.map fNode).flatMap (·.lines) = Fortran.nodesLines ns := by
  unfold Fortran.nodesLines
  rw [List.flatMap_map]; rfl

theorem fguard_iff (t : List Char) : fguard t = true ↔
    ∃ r, Fortran.refText (String.ofList t) = some r ∧ ∀ x ∈ r, x.2 = false := by
  unfold fguard
  cases Fortran.refText (String.ofList t) with
  | none => simp
  | some r => simp [List.all_eq_true]

/-! ## per file: what the parser of the file's language returns -/

/-- what a successful parse `p` of the file `f` satisfies, whatever the language: the `lines` of the nodes, concatenated, are
    strictly increasing within `1..n`, `num_lines = len(lines)`, the payload list carries the same `lines`, the tree builds,
    and inside the guard of the file's language the lines are the ones the language's specification counts -/
def ParseFacts (f : SrcFile) (p : Parsed) : Prop :=
  (p.nodes.flatMap (·.lines)).Pairwise (· < ·) ∧
  (∀ m ∈ p.nodes.flatMap (·.lines), 1 ≤ m ∧ m ≤ physLines f) ∧
  (∀ nd ∈ p.nodes, nd.numLines = nd.lines.length) ∧
  List.Forall₂ (fun n q => q.lines = n.lines) p.nodes p.pnodes ∧
  (guardL f = true → p.nodes.flatMap (·.lines) = countedL f)

theorem parseSrcL_facts (f : SrcFile) (p : Parsed) (h : parseSrcL f = .ok p) : ParseFacts f p := by
  unfold parseSrcL at h
  unfold ParseFacts guardL countedL physLines
  cases hl : langOf f.path with
  | cFamily =>
    simp only [hl] at h ⊢
    obtain ⟨r0, hpf, hn, hfa, _⟩ := parseSrc_ok f.text p h
    obtain ⟨h1, h2, h3, _, _⟩ := CbiVerif.C05.partition f.text r0 hpf
    rw [hn] at h1 h2 h3
    exact ⟨h1, h2, h3, hfa, fun hg => by rw [← hn]; exact nodes_lines_eq_counted f.text r0 hpf hg⟩
  | fortranFree =>
    simp only [hl] at h ⊢
    obtain ⟨lls, hs, hn, _, hfa, _⟩ := fParseSrc_ok f.text p h
    have hnl : p.nodes.flatMap (·.lines) = Fortran.countedOf lls := by
      rw [hn, fNode_lines]; exact (CbiVerif.C17.structural_nodes lls).1
    refine ⟨?_, ?_, ?_, hfa, ?_⟩
    · rw [hnl]; exact CbiVerif.C17.structural_increasing _ lls hs
    · rw [hnl]; exact CbiVerif.C17.structural_in_range _ lls hs
    · intro nd hnd
      rw [hn] at hnd
      obtain ⟨n, hn', rfl⟩ := List.mem_map.mp hnd
      exact (CbiVerif.C17.structural_nodes lls).2 n hn'
    · intro hg
      obtain ⟨r, hr, hk⟩ := (fguard_iff f.text).mp hg
      obtain ⟨lls', bs, hs', _, _, hc⟩ := CbiVerif.C17.lines_eq_ref _ r hr
      rw [hs] at hs'
      simp only [Except.ok.injEq] at hs'
      subst hs'
      rw [hnl, hc hk]
      unfold fcounted
      rw [hr]
  | asm => simp [hl] at h
  | unsupported => simp [hl] at h

/-- on a C-family file the dispatching parser IS `C06C.parseSrc` -/
theorem parseSrcL_c (f : SrcFile) (h : langOf f.path = .cFamily) : parseSrcL f = parseSrc f.text := by
  unfold parseSrcL; rw [h]

/-- on a free-form Fortran file it is the C17 front end -/
theorem parseSrcL_f (f : SrcFile) (h : langOf f.path = .fortranFree) : parseSrcL f = fParseSrc f.text := by
  unfold parseSrcL; rw [h]

end CbiVerif.C06L
