import CbiVerif.Model.Eval
/-!
# The evaluator reads tokens through kind and text only (C02, white-space irrelevance)

`eraseFlags` clears `prev_white` and sets `expandable`.  The generic precedence climbing (`Climb.expr / loop / primary`)
commutes with it whenever the leaf parser does (`erase_all`), the leaf parsers of the executed instance (`opsN n`, residual
calls of any nesting) do (`leafInv_opsN`), hence `cbiExpr` and `cbiEval` return the same value (and the same rest up to
flags) on two token lists that agree in kinds and texts.  Core Lean only.
-/
namespace CbiVerif.EvalFlags
open CbiVerif.PP CbiVerif.Climb CbiVerif.Eval

variable {V : Type}

/-- the result with the flags of the unconsumed tokens erased -/
def mapRes (r : Res V) : Res V :=
  match r with
  | .ok (v, rest) => .ok (v, rest.map eraseFlags)
  | .error e => .error e

@[simp] theorem mapRes_ok (v : V) (rest : List Tok) : mapRes (.ok (v, rest)) = .ok (v, rest.map eraseFlags) := rfl
@[simp] theorem mapRes_error (e : EErr) : mapRes (.error e : Res V) = .error e := rfl

@[simp] theorem erase_kind (t : Tok) : (eraseFlags t).kind = t.kind := rfl
@[simp] theorem erase_text (t : Tok) : (eraseFlags t).text = t.text := rfl
@[simp] theorem isOp_erase (t : Tok) (s : String) : isOp (eraseFlags t) s = isOp t s := rfl
@[simp] theorem isPunct_erase (t : Tok) (s : String) : isPunct (eraseFlags t) s = isPunct t s := rfl

/-- a leaf parser that reads kind and text only -/
def LeafInv (leaf : List Tok → Res V) : Prop := ∀ ts, leaf (ts.map eraseFlags) = mapRes (leaf ts)

theorem erase_all (O : EvOps V) (hL : LeafInv O.leaf) : ∀ f,
    (∀ m ts, expr O f m (ts.map eraseFlags) = mapRes (expr O f m ts)) ∧
    (∀ m v ts, loop O f m v (ts.map eraseFlags) = mapRes (loop O f m v ts)) ∧
    (∀ ts, primary O f (ts.map eraseFlags) = mapRes (primary O f ts)) := by
  intro f
  induction f with
  | zero => simp [expr, loop, primary, oof, mapRes]
  | succ f ih =>
    obtain ⟨ihe, ihl, ihp⟩ := ih
    refine ⟨?_, ?_, ?_⟩
    · intro m ts
      simp only [expr, ihp]
      cases hp : primary O f ts with
      | error e => simp
      | ok pr => obtain ⟨v, rest⟩ := pr; simp only [mapRes_ok, ihl]
    · intro m v ts
      match ts with
      | [] => simp [loop]
      | t :: rest =>
        simp only [List.map_cons, loop, erase_text, erase_kind]
        cases hb : O.binInfo t.text with
        | none => simp
        | some pa =>
          obtain ⟨p, ra⟩ := pa
          simp only
          by_cases hpm : p ≥ m
          · simp only [hpm, if_true]
            by_cases hk : (t.kind != TKind.op) = true
            · simp [hk]
            · simp only [hk, Bool.false_eq_true, if_false]
              by_cases hq : (t.text == "?") = true
              · simp only [hq, if_true, ihe]
                cases he : expr O f 0 rest with
                | error e => simp
                | ok tr =>
                  obtain ⟨tv, r2⟩ := tr
                  match r2 with
                  | [] => simp
                  | c :: rest2 =>
                    simp only [mapRes_ok, List.map_cons, isOp_erase]
                    by_cases hc : isOp c ":" = true
                    · simp only [hc, if_true, ihe]
                      cases he2 : expr O f (if ra then p else p + 1) rest2 with
                      | error e => simp
                      | ok er => obtain ⟨ev, r3⟩ := er; simp only [mapRes_ok, ihl]
                    · simp [hc]
              · simp only [hq, Bool.false_eq_true, if_false, ihe]
                cases he : expr O f (if ra then p else p + 1) rest with
                | error e => simp
                | ok rr => obtain ⟨r', r2⟩ := rr; simp only [mapRes_ok, ihl]
          · simp [hpm]
    · intro ts
      match ts with
      | [] => simp [primary]
      | t :: rest =>
        simp only [List.map_cons, primary, erase_text, erase_kind, isPunct_erase]
        by_cases hk : (t.kind == TKind.op) = true
        · simp only [hk, if_true]
          cases hu : O.unPrec t.text with
          | none => simp
          | some q =>
            simp only [ihe]
            cases he : expr O f q rest with
            | error e => simp
            | ok vr => obtain ⟨v, r2⟩ := vr; simp
        · simp only [hk, Bool.false_eq_true, if_false]
          by_cases hp : isPunct t "(" = true
          · simp only [hp, if_true, ihe]
            cases he : expr O f 0 rest with
            | error e => simp
            | ok vr =>
              obtain ⟨v, r2⟩ := vr
              match r2 with
              | [] => simp
              | c :: rest2 =>
                simp only [mapRes_ok, List.map_cons, isPunct_erase]
                by_cases hc : isPunct c ")" = true
                · simp [hc]
                · simp [hc]
          · simp only [hp, Bool.false_eq_true, if_false]
            have := hL (t :: rest)
            simpa using this

theorem expr_erase (O : EvOps V) (hL : LeafInv O.leaf) (f m : Nat) (ts : List Tok) :
    expr O f m (ts.map eraseFlags) = mapRes (expr O f m ts) := (erase_all O hL f).1 m ts

/-! ## the leaf parser of the executed instance -/

/-- an argument-list parser (`__expression_list`) that reads kind and text only -/
def ArgInv (args : List Tok → Except EErr (List Tok)) : Prop :=
  ∀ ts, args (ts.map eraseFlags) = (match args ts with | .ok r => .ok (r.map eraseFlags) | .error e => .error e)

theorem leafWith_inv (args : List Tok → Except EErr (List Tok)) (ha : ArgInv args) : LeafInv (leafWith args) := by
  intro ts
  match ts with
  | [] => simp [leafWith]
  | t :: rest =>
    simp only [List.map_cons, leafWith, erase_kind, erase_text]
    by_cases h1 : (t.kind == TKind.num) = true
    · simp only [h1, if_true]
      cases literal t.text <;> simp
    · simp only [h1, Bool.false_eq_true, if_false]
      by_cases h2 : (t.kind == TKind.chr) = true
      · simp only [h2, if_true]
        cases characterValue t.text.toList with
        | ok n => simp
        | error e => cases e <;> simp
      · simp only [h2, Bool.false_eq_true, if_false]
        by_cases h3 : (t.kind == TKind.ident) = true
        · simp only [h3, if_true]
          match rest with
          | [] => simp
          | p :: r1 =>
            simp only [List.map_cons, isPunct_erase]
            by_cases hp : isPunct p "(" = true
            · simp only [hp, if_true, ha r1]
              cases hr : args r1 with
              | error e => simp
              | ok r3 =>
                match r3 with
                | [] => simp
                | c :: r4 =>
                  simp only [List.map_cons, isPunct_erase]
                  by_cases hc : isPunct c ")" = true
                  · simp [hc]
                  · simp [hc]
            · simp [hp]
        · simp [h3]

theorem more_inv (ex : List Tok → Res Val) (hex : ∀ ts, ex (ts.map eraseFlags) = mapRes (ex ts)) :
    ∀ (fuel : Nat) (ts : List Tok), argList.more ex fuel (ts.map eraseFlags) =
      (match argList.more ex fuel ts with | .ok r => .ok (r.map eraseFlags) | .error e => .error e) := by
  intro fuel
  induction fuel with
  | zero => intro ts; simp [argList.more]
  | succ fuel ih =>
    intro ts
    match ts with
    | [] => simp [argList.more]
    | c :: r1 =>
      simp only [List.map_cons, argList.more, isPunct_erase]
      by_cases hc : isPunct c "," = true
      · simp only [hc, if_true, hex r1]
        cases hr : ex r1 with
        | error e => cases e <;> simp
        | ok vr => obtain ⟨v, r2⟩ := vr; simp only [mapRes_ok, ih r2]
      · simp [hc]

theorem argList_inv (ex : List Tok → Res Val) (hex : ∀ ts, ex (ts.map eraseFlags) = mapRes (ex ts)) :
    ArgInv (argList ex) := by
  intro ts
  simp only [argList, hex ts]
  cases hr : ex ts with
  | error e => cases e <;> simp
  | ok vr =>
    obtain ⟨v, r⟩ := vr
    simp only [mapRes_ok, List.length_map]
    exact more_inv ex hex _ r

theorem leafInv_opsN : ∀ n, LeafInv (opsN n).leaf
  | 0 => by
    show LeafInv (leafWith fun _ => .error (.other 0))
    exact leafWith_inv _ (by intro ts; rfl)
  | n + 1 => by
    show LeafInv (leafWith (argList fun ts => expr (opsN n) (3 * ts.length + 4) 0 ts))
    refine leafWith_inv _ (argList_inv _ ?_)
    intro ts
    simp only [List.length_map]
    exact expr_erase (opsN n) (leafInv_opsN n) _ 0 ts

/-! ## the executed evaluator -/

theorem cbiExpr_erase (ts : List Tok) : cbiExpr (ts.map eraseFlags) = mapRes (cbiExpr ts) := by
  simp only [cbiExpr, List.length_map]
  exact expr_erase _ (leafInv_opsN _) _ 0 ts

theorem cbiEval_erase (ts : List Tok) : cbiEval (ts.map eraseFlags) = cbiEval ts := by
  simp only [cbiEval, cbiExpr_erase]
  cases cbiExpr ts with
  | error e => rfl
  | ok vr => obtain ⟨v, r⟩ := vr; rfl

/-- kind and text of a token: all the evaluator looks at -/
def key (t : Tok) : TKind × String := (t.kind, t.text)

theorem erase_of_key (ts ts' : List Tok) (h : ts.map key = ts'.map key) : ts.map eraseFlags = ts'.map eraseFlags := by
  have e : ∀ l : List Tok, l.map eraseFlags = (l.map key).map fun k => (⟨k.1, k.2, false, true⟩ : Tok) := by
    intro l; simp [List.map_map, Function.comp_def, key, eraseFlags]
  rw [e ts, e ts', h]

end CbiVerif.EvalFlags
