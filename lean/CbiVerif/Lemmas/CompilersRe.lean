import CbiVerif.Model.CompilersRe
import CbiVerif.Lemmas.Regex
/-! the shipped nvcc architecture pattern: what one match attempt computes, for every text -/
namespace CbiVerif.Compilers
open CbiVerif.Regex

/-- the parse of `(?:sm_|compute_)(\d+)` -/
def nvRe : Re :=
  .seq (.alt (lit "sm_".toList) (lit "compute_".toList)) (.group 1 (.plus (.cls false [.digit])))

theorem classTest_digit (c : Char) : classTest false [.digit] c = c.isDigit := by
  simp [classTest, CItem.test]

/-- the digits group after the prefix, with the final continuation of a match attempt at a longer text `s` -/
theorem digits_fin (adv : Bool) (s r : List Char) (caps : Caps) (hl : r.length < s.length) :
    matchRe (.group 1 (.plus (.cls false [.digit]))) r caps (fin adv s) =
      (digitsAt r).map fun (dr : List Char × List Char) => (dr.2, (1, dr.1) :: caps) := by
  have hfun : classTest false [.digit] = Char.isDigit := funext classTest_digit
  cases r with
  | nil => rw [group_plus_cls_none _ _ _ _ _ _ (by simp)]; simp [digitsAt]
  | cons c t =>
    by_cases hc : c.isDigit = true
    · have hdl := dropWhile_length_le Char.isDigit t
      have hne : (t.dropWhile Char.isDigit).length ≠ s.length := by simp at hl; omega
      rw [group_plus_cls 1 false [.digit] c t caps (fin adv s)
        (t.dropWhile Char.isDigit, (1, c :: t.takeWhile Char.isDigit) :: caps) (by rw [classTest_digit]; exact hc)
        (by rw [hfun]; simp [fin, hne])]
      simp [digitsAt, hc, List.takeWhile, List.dropWhile]
    · rw [group_plus_cls_none _ _ _ _ _ _ (by simp [classTest_digit]; simpa using hc)]
      simp [digitsAt, hc]

theorem strip_lt (p s rest : List Char) (hp : p ≠ []) (hs : stripPrefix p s = some rest) : rest.length < s.length := by
  rw [stripPrefix_eq p s rest hs]
  cases p with
  | nil => exact absurd rfl hp
  | cons a p => simp; omega

theorem matchAt_nv (adv : Bool) (s : List Char) :
    matchAt nvRe adv s = (nvAt s).map fun (dr : List Char × List Char) => (dr.2, [(1, dr.1)]) := by
  simp only [matchAt, nvRe, matchRe_seq, matchRe_alt, matchRe_lit, nvAt]
  cases h1 : stripPrefix "sm_".toList s with
  | none =>
    cases h2 : stripPrefix "compute_".toList s with
    | none => rfl
    | some r2 => simp only [digits_fin adv s r2 [] (strip_lt _ _ _ (by decide) h2)]
  | some r1 =>
    simp only [digits_fin adv s r1 [] (strip_lt _ _ _ (by decide) h1)]
    cases hd : digitsAt r1 with
    | some x => rfl
    | none =>
      cases h2 : stripPrefix "compute_".toList s with
      | none => rfl
      | some r2 => simp only [Option.map, digits_fin adv s r2 [] (strip_lt _ _ _ (by decide) h2)]

end CbiVerif.Compilers
