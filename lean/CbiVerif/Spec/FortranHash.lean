import CbiVerif.Spec.FortranRef
/-!
Finding class F-C17-2 of the C17 reference scanner (`Spec/FortranRef.lean`), written from the property text and the
free-form source rules, NOT from the code.

In free-form Fortran a preprocessor directive is a line whose first non-blank character is `#` (R6).  A continuation line
`& #define A` (or ` #define A` after a trailing `&`) is NOT such a line: its `#` is statement text (`gfortran -cpp -E` leaves it
alone).  The reference accepts a statement that BEGINS with lines holding nothing but `&` (optionally followed by a comment)
— F2018 6.3.2.4 forbids such lines, compilers only warn — and then the first character of the statement's text can be a `#`
that stands on a continuation line.  `hashHeadLines` lists exactly these physical lines:

* the line is a continuation line outside a character context (reference mode `start .top`),
* no line of the statement so far was counted (every earlier line of the statement held only `&`, blanks or comments),
* the first character of its statement text (leading blanks and the optional leading `&` of R4 skipped) is `#`.

Core Lean only.
-/
namespace CbiVerif.Fortran

/-- first character of the statement text of a continuation line outside a character context: leading blanks and the
    optional leading `&` (R4) are skipped -/
def contHead (l : List Char) : Option Char :=
  match dropWs l with
  | [] => none
  | c :: cs => if cls c == .amp then (dropWs cs).head? else some c

/-- `n` lines read so far, `m` the reference mode in front of the line, `p`: no line of the current statement has been
    counted yet -/
def hashHeadAux : Nat → RF → Bool → List (List Char) → List Nat
  | _, _, _, [] => []
  | n, m, p, l :: ls =>
    if isDirectiveLine l then hashHeadAux (n + 1) .code true ls
    else
      match rline m l with
      | none => []
      | some r =>
        (if m == .start .top && p && contHead l == some '#' then [n + 1] else []) ++
          hashHeadAux (n + 1) r.next (r.next == .code || (p && !r.counted)) ls

/-- the physical lines of finding class F-C17-2 of a text: continuation lines whose `#` is the first character of the text
    of their statement -/
def hashHeadLines (s : String) : List Nat := hashHeadAux 0 .code true (textLines s)

end CbiVerif.Fortran
