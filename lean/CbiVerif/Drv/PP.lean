import Lean.Data.Json
import CbiVerif.PP.Find
import CbiVerif.Model.FindInst
import CbiVerif.PP.FSource
import CbiVerif.PP.Config
open Lean CbiVerif.PP CbiVerif.Argv CbiVerif.Config

def tokJson (t : Tok) : Json := Json.mkObj [("k", toString (repr t.kind)), ("t", t.text), ("w", t.pw), ("s", t.spell)]

def handlePP (j : Json) : Json :=
  match j.getObjValAs? String "op" with
  | .ok "lex" =>
    match j.getObjValAs? String "text" with
    | .ok s => Json.arr ((tokenize s).map tokJson).toArray
    | _ => Json.null
  | .ok "expand" =>
    let defs := (j.getObjValAs? (Array String) "defs").toOption.getD #[]
    let text := (j.getObjValAs? String "text").toOption.getD ""
    let rec build (ds : List String) (tbl : Table) : Except Err Table :=
      match ds with
      | [] => .ok tbl
      | d :: r => match defineFromLine ("#define " ++ d) with
        | .ok m => build r (if (tbl.get m.name).isSome then tbl else tbl ++ [(m.name, m)])
        | .error e => .error e
    match build defs.toList [] with
    | .error e => Json.mkObj [("exc", toString (repr e))]
    | .ok tbl =>
      match runExpandT tbl (tokenize text) with
      | .ok ts => Json.mkObj [("ok", Json.arr (ts.map tokJson).toArray)]
      | .error e => Json.mkObj [("exc", toString (repr e))]
      | .sig s => Json.mkObj [("sig", s)]
  | .ok "eval" =>
    let defs := (j.getObjValAs? (Array String) "defs").toOption.getD #[]
    let text := (j.getObjValAs? String "text").toOption.getD ""
    let rec build2 (ds : List String) (tbl : Table) : Except Err Table :=
      match ds with
      | [] => .ok tbl
      | d :: r => match macroFromDefinitionString d with
        | .ok m => build2 r (if (tbl.get m.name).isSome then tbl else tbl ++ [(m.name, m)])
        | .error e => .error e
    match build2 defs.toList [] with
    | .error e => Json.mkObj [("exc", toString (repr e))]
    | .ok tbl =>
      match runExpandT tbl (tokenize text) with
      | .ok ts =>
        match evaluate ts with
        | .ok b => Json.mkObj [("ok", b)]
        | .error e => Json.mkObj [("exc", toString (repr e))]
      | .error e => Json.mkObj [("exc", toString (repr e))]
      | .sig s => Json.mkObj [("sig", s)]
  | .ok "analyse" =>
    let defs := (j.getObjValAs? (Array String) "defs").toOption.getD #[]
    let text := (j.getObjValAs? String "text").toOption.getD ""
    match analyseFile text defs.toList with
    | .ok rows => Json.mkObj [("ok", Json.arr (rows.map fun (k, ls, a) =>
        Json.arr #[Json.str ((toString (repr k)).splitOn "." |>.getLast!), Json.arr (ls.map fun (n : Nat) => (n : Json)).toArray, Json.bool a]).toArray)]
    | .error e => Json.mkObj [("exc", toString (repr e))]
  | .ok "csource" =>
    let text := (j.getObjValAs? String "text").toOption.getD ""
    match cFileSource text with
    | .ok (lls, total, phys) => Json.mkObj [("ok", Json.arr (lls.map fun l =>
        Json.arr #[Json.arr (l.lines.map fun (n : Nat) => (n : Json)).toArray, Json.str l.text, Json.bool (l.cat == .cppDirective), (l.start : Nat), (l.stop : Nat)]).toArray), ("total", total), ("phys", phys)]
    | .error e => Json.mkObj [("exc", toString (repr e))]
  | .ok "find" =>
    let files : FSMap := match j.getObjVal? "files" with
      | .ok (Json.obj kvs) => kvs.toList.map fun (k, v) => (k, v.getStr?.toOption.getD "")
      | _ => []
    let codebase := (j.getObjValAs? (Array String) "codebase").toOption.getD #[]
    let cfgArr := (j.getObjValAs? (Array Json) "config").toOption.getD #[]
    let strs (e : Json) (k : String) : List String := ((e.getObjValAs? (Array String) k).toOption.getD #[]).toList
    let config : List (String × List Entry) := cfgArr.toList.map fun pj =>
      ((pj.getObjValAs? String "name").toOption.getD "",
       ((pj.getObjValAs? (Array Json) "entries").toOption.getD #[]).toList.map fun e =>
         ({ file := (e.getObjValAs? String "file").toOption.getD "", defines := strs e "defines",
            includePaths := strs e "include_paths", includeFiles := strs e "include_files" } : Entry))
    -- the state-threading run of the one multi-file engine (`Exclude.find`), every file through the C front end
    let xw := CbiVerif.Exclude.find (CbiVerif.FindInst.semPP files) CbiVerif.Exclude.defaultFuel codebase.toList config
    let st : CbiVerif.PP.PState := { trees := xw.cache.map fun (f, _, t) => (f, t), assoc := xw.loc.assoc, warns := xw.loc.warns, err := xw.loc.err }
    match st.err with
    | some e => Json.mkObj [("exc", toString (repr e))]
    | none =>
      let filesOut := st.trees.map fun (f, (nodes, _)) =>
        (f, Json.arr (nodes.toList.zipIdx.map fun (n, i) =>
          let ps := ((st.assoc.find? (·.1 == (f, i))).map (·.2)).getD []
          Json.arr #[Json.str ((toString (repr n.kind)).splitOn "." |>.getLast!), Json.arr (n.lines.map fun (x : Nat) => (x : Json)).toArray,
                     Json.arr (ps.map Json.str).toArray]).toArray)
      let warns := st.warns.map fun w => match w with
        | .userInclude f l n => Json.arr #[Json.str "user", Json.str f, (l : Nat), Json.str n]
        | .sysInclude f l n => Json.arr #[Json.str "system", Json.str f, (l : Nat), Json.str n]
      Json.mkObj [("ok", Json.mkObj filesOut), ("warns", Json.arr warns.toArray)]
  | .ok "fsource" =>
    let text := (j.getObjValAs? String "text").toOption.getD ""
    match fFileSource text with
    | .ok rows => Json.mkObj [("ok", Json.arr (rows.map fun (ls, t, d) =>
        Json.arr #[Json.arr (ls.map fun (n : Nat) => (n : Json)).toArray, Json.str t, Json.bool d]).toArray)]
    | .error e => Json.mkObj [("exc", toString (repr e))]
  | .ok "parseargs" =>
    -- {"compilers": {name: {alias_of?, options, rules:[{flags,nargs,act,...}], defaults:{flag:[..]}, modes:{..}, passes:{..}}}, "argv0": .., "argv": [...], "matches": [[flag0, value, [..]]]}
    let strs (e : Json) (k : String) : List String := ((e.getObjValAs? (Array String) k).toOption.getD #[]).toList
    let getS (e : Json) (k : String) : String := (e.getObjValAs? String k).toOption.getD ""
    let objList (e : Json) (k : String) : List (String × Json) := match e.getObjVal? k with | .ok (Json.obj kvs) => kvs.toList | _ => []
    let decRule (r : Json) : Opt :=
      let flags := strs r "flags"
      let nargs := match getS r "nargs" with | "one" => Nargs.one | "opt" => Nargs.opt | _ => Nargs.zero
      let act : Act := match getS r "act" with
        | "append" => .append (getS r "dest")
        | "append_const" => .appendConst (getS r "dest") (getS r "const")
        | "store_split" => .storeSplit (getS r "sep") (getS r "prefix") (flags.headD "")
        | "extend_match" => .extendMatch (getS r "prefix") (flags.headD "") ((r.getObjValAs? Bool "override").toOption.getD false)
        | _ => .ignore
      ⟨flags, nargs, act⟩
    let decMode (m : Json) : ModeDef := ⟨strs m "defines", strs m "include_paths", strs m "include_files"⟩
    let decComp (c : Json) : Compiler :=
      { aliasOf := (c.getObjValAs? String "alias_of").toOption, options := strs c "options",
        rules := ((c.getObjValAs? (Array Json) "rules").toOption.getD #[]).toList.map decRule,
        defaults := (objList c "defaults").map fun (k, v) => (k, (v.getArr?.toOption.getD #[]).toList.map fun x => x.getStr?.toOption.getD ""),
        modes := (objList c "modes").map fun (k, v) => (k, decMode v),
        passes := (objList c "passes").map fun (k, v) => (k, { toModeDef := decMode v, modes := strs v "modes" }) }
    let comps := (objList j "compilers").map fun (k, v) => (k, decComp v)
    let mtab : List (String × String × List String) := ((j.getObjValAs? (Array Json) "matches").toOption.getD #[]).toList.map fun e =>
      match e with
      | Json.arr a => ((a[0]!).getStr?.toOption.getD "", (a[1]!).getStr?.toOption.getD "", ((a[2]!).getArr?.toOption.getD #[]).toList.map fun x => x.getStr?.toOption.getD "")
      | _ => ("", "", [])
    let mf (f v : String) : List String := ((mtab.find? fun e => e.1 == f && e.2.1 == v).map (·.2.2)).getD []
    let (comp, logs1) := resolveCompiler comps (getS j "argv0")
    match parseArgs comp (strs j "argv") mf with
    | .error e => Json.mkObj [("exc", toString (repr e))]
    | .ok (cfgs, logs2) =>
      Json.mkObj [("ok", Json.arr (cfgs.map fun c => Json.mkObj [("pass", c.passName), ("defines", Json.arr (c.defines.map Json.str).toArray),
          ("include_paths", Json.arr (c.includePaths.map Json.str).toArray), ("include_files", Json.arr (c.includeFiles.map Json.str).toArray)]).toArray),
        ("logs", Json.arr ((logs1 ++ logs2).map fun l => Json.str (toString (repr l))).toArray)]
  | _ => Json.null


def ppOps : List String := ["lex","expand","eval","analyse","csource","find","fsource","parseargs"]
