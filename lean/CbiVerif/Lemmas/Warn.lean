import CbiVerif.Model.Warn
/-! Helper lemmas for C18: substring search, the per-meta-warning counter, rendered messages. -/
namespace CbiVerif.Warn

theorem containsSub_of_prefix (pat rest : List Char) : containsSub (pat ++ rest) pat = true := by
  cases h : pat ++ rest with
  | nil =>
    have : pat = [] := by
      cases pat with
      | nil => rfl
      | cons c cs => simp at h
    subst this; simp [containsSub]
  | cons c cs =>
    simp only [containsSub, ← h]
    have : pat.isPrefixOf (pat ++ rest) = true := by
      rw [List.isPrefixOf_iff_prefix]; exact List.prefix_append pat rest
    simp [this]

/-- a message built as `before ++ phrase ++ after` is found by the search for `phrase` -/
theorem containsSub_mid (a pat b : List Char) : containsSub (a ++ pat ++ b) pat = true := by
  induction a with
  | nil => simpa using containsSub_of_prefix pat b
  | cons c cs ih =>
    simp only [List.cons_append, containsSub]
    simp only [List.append_assoc] at ih
    simp [ih]

theorem countFor_eq_filter (regex : String) (rs : List Record) :
    countFor regex rs = (rs.filter (inspect regex)).length := by
  unfold countFor
  suffices h : ∀ c, rs.foldl (fun c r => if inspect regex r then c + 1 else c) c = c + (rs.filter (inspect regex)).length by
    simpa using h 0
  induction rs with
  | nil => intro c; simp
  | cons r rs ih =>
    intro c
    simp only [List.foldl_cons, List.filter_cons]
    by_cases hr : inspect regex r = true
    · simp only [hr, if_true, List.length_cons]; rw [ih]; omega
    · simp only [hr, Bool.false_eq_true, if_false]; rw [ih]

theorem any_nonnl_append_left (a b : List Char) (h : a.any (· != '\n') = true) : (a ++ b).any (· != '\n') = true := by
  simp [List.any_append, h]

theorem any_nonnl_append_right (a b : List Char) (h : b.any (· != '\n') = true) : (a ++ b).any (· != '\n') = true := by
  simp [List.any_append, h]

/-- every rendered message contains a character other than newline (so the "." meta-warning counts it) -/
theorem render_nonempty (e : Event) : (renderL e).any (· != '\n') = true := by
  unfold renderL
  cases e.kind with
  | userInclude =>
    simp only [includeMsg]
    apply any_nonnl_append_right; apply any_nonnl_append_left; apply any_nonnl_append_right; decide
  | systemInclude =>
    simp only [includeMsg]
    apply any_nonnl_append_right; apply any_nonnl_append_left; apply any_nonnl_append_right; decide
  | unknownDirective =>
    simp only []
    apply any_nonnl_append_right; decide
  | missingFile => simp only []; apply any_nonnl_append_left; decide
  | unknownCompiler => simp only []; apply any_nonnl_append_right; decide
  | unknownArgs => simp only []; apply any_nonnl_append_right; decide
  | noFiles => simp only []; apply any_nonnl_append_right; decide

theorem include_contains_phrase (sys : Bool) (e : Event) :
    containsSub (includeMsg sys e) (includePhrase sys).toList = true := by
  unfold includeMsg
  exact containsSub_mid _ _ _

theorem level_is_warning : Gen.aggregatorLevel = "WARNING" := rfl

theorem inspect_dot (e : Event) : inspect "." ⟨"WARNING", renderL e⟩ = true := by
  simp [inspect, level_is_warning, matchesRegex, render_nonempty]

theorem user_phrase_ne_dot : (Gen.includeKindUser == ".") = false := by decide
theorem system_phrase_ne_dot : (Gen.includeKindSystem == ".") = false := by decide


end CbiVerif.Warn
