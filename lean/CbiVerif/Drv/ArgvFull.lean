import Lean.Data.Json
import CbiVerif.Drv.Argv
import CbiVerif.Model.ArgparseFull
import CbiVerif.Spec.Unrecognised
/-! driver op for C11 (full `parse_known_args` model): `c11full` = everything `c11` replies, plus
`full` = `ArgparseFull.fullModel argv` (four value lists, `file`, `extras`, or the class of the abort) and
`pattern` = the `O`/`A`/`-` string of the up-front pass.  The functions called here are the ones the
theorems of `Props/C11Full.lean` are about. -/
open Lean
namespace CbiVerif.Drv.ArgvFull
open CbiVerif CbiVerif.Drv.Argv

def fullJson (argv : List (List Char)) : Json :=
  match ArgparseFull.fullModel argv with
  | .ok r => Json.mkObj [("ok", Json.mkObj [
      ("defines", Json.arr (r.defines.map jval).toArray),
      ("include_paths", Json.arr (r.includePaths.map jval).toArray),
      ("system_include_paths", Json.arr (r.systemPaths.map jval).toArray),
      ("include_files", Json.arr (r.includeFiles.map jval).toArray),
      ("file", jstrs r.file),
      ("extras", jstrs r.extras)])]
  | .error e => Json.mkObj [("exc", errName e)]

def patChar : ArgparseFull.Tok → Char
  | .A _ => 'A'
  | .DD => '-'
  | .O _ _ => 'O'

def patternJson (argv : List (List Char)) : Json :=
  match ArgparseFull.tokenize Argparse.table argv with
  | .ok toks => Json.str (String.ofList (toks.map patChar))
  | .error e => Json.mkObj [("exc", errName e)]

/-- `waitsForValue` of every prefix of the command line (index i = the first i arguments) -/
def waitsJson (argv : List (List Char)) : Json :=
  Json.arr ((List.range (argv.length + 1)).map fun i => Json.bool (ArgparseFull.waitsForValue (argv.take i))).toArray

def handleFull (j : Json) : Json :=
  let argv := strs j "argv"
  let wantWaits := (j.getObjValAs? Bool "waits").toOption.getD false
  let r := ((handleC11 j).setObjVal! "full" (fullJson argv)).setObjVal! "pattern" (patternJson argv)
  let lo := Unrecognised.leftover argv
  let r := r.setObjVal! "leftover" (Json.mkObj [("file", jstrs lo.file), ("extras", jstrs lo.extras)])
  if wantWaits then r.setObjVal! "waits" (waitsJson argv) else r

def handlers : List (String × (Json → Json)) := [("c11full", handleFull)]

end CbiVerif.Drv.ArgvFull
