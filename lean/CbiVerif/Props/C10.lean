import CbiVerif.Lemmas.Exclude
import CbiVerif.Lemmas.ExpandPP
import CbiVerif.Props.C08Engines
/-! # C10 — excluding files removes their lines from the counts and changes nothing else

Model: `CbiVerif/Model/Exclude.lean` (`find` with an explicit tree cache and language class per file,
`setmapOf`, `effectivePatterns`).  The driver op `c10find` executes exactly these definitions with the
semantics `Exclude.sem fs` (the preprocessor model of `CbiVerif/PP`); the theorems below hold for
*every* semantics record `S`, hence for that instance.

The code base enters `find` in one place only: the list of files that are parsed before any
association starts (`preparse`).  What that can change is (1) whether the analysis fails while building
trees (`PreOK`) and (2) the *language* in which a header is parsed: a header that is not pre-parsed is
parsed in the language of the file that includes it first (`Sem.enter`).  `NoMix` says that (2) never
made a difference in the run — every file was used under the class that depends on (file system,
configuration) only: its extension class if it has one, else the class of its includer.
Under `PreOK` and `NoMix` the attribution equals the cache-free reference `findRef`, which does not
mention the code base at all.  Without `NoMix` the statement is false: `d19_dependency` (finding D19). -/
namespace CbiVerif.C10
open CbiVerif.PP CbiVerif.Exclude

/-- building the trees of the code base and of the compiled files did not fail -/
def PreOK (S : Sem) (cb : List String) (cfg : List (String × List Entry)) : Prop :=
  (preparse S (cb ++ entryFiles cfg) {}).loc.err = none

/-- no language-mixing event was logged by the run (the model reports the log, so this is decidable per run) -/
def NoMix (S : Sem) (n : Nat) (cb : List String) (cfg : List (String × List Entry)) : Prop :=
  (find S n cb cfg).mixed = []

/-- With no mixing event, the whole association state (per-node platform sets, include warnings,
failure status, final platform) is the reference's — a function of (file system, configuration) only. -/
theorem find_eq_ref (S : Sem) (n : Nat) (cb : List String) (cfg : List (String × List Entry))
    (hpre : PreOK S cb cfg) (hmix : NoMix S n cb cfg) :
    (find S n cb cfg).loc = findRef S n cfg :=
  (find_spec S n cb cfg hpre).2.1 hmix

/-- **Attribution does not depend on the exclude list**: two analyses of the same file system and
configuration with *any* two code bases (any exclude patterns, any root) attribute every node of every
file to the same platforms, emit the same include warnings and fail or succeed alike. -/
theorem attribution_independent_of_excludes (S : Sem) (n : Nat) (cb₁ cb₂ : List String)
    (cfg : List (String × List Entry))
    (h₁ : PreOK S cb₁ cfg) (h₂ : PreOK S cb₂ cfg) (m₁ : NoMix S n cb₁ cfg) (m₂ : NoMix S n cb₂ cfg) :
    (find S n cb₁ cfg).loc = (find S n cb₂ cfg).loc := by
  rw [find_eq_ref S n cb₁ cfg h₁ m₁, find_eq_ref S n cb₂ cfg h₂ m₂]

/-- Every file of the code base (and every compiled file) is counted on the tree obtained by parsing it
under its *extension* class — whatever else the code base contains and whatever was included first. -/
theorem member_tree_by_extension (S : Sem) (n : Nat) (cb : List String) (cfg : List (String × List Entry))
    (hpre : PreOK S cb cfg) (f : String) (hf : f ∈ cb ++ entryFiles cfg) :
    ∃ cl t, S.extClass f = some cl ∧ S.parseAs cl f = .ok t ∧ (find S n cb cfg).cache.look f = some (cl, t) :=
  (find_spec S n cb cfg hpre).2.2 f hf

/-- per-line rows (platform set, line count per node) of a file that is in both code bases are equal -/
theorem rows_independent_of_excludes (S : Sem) (n : Nat) (cb₁ cb₂ : List String)
    (cfg : List (String × List Entry))
    (h₁ : PreOK S cb₁ cfg) (h₂ : PreOK S cb₂ cfg) (m₁ : NoMix S n cb₁ cfg) (m₂ : NoMix S n cb₂ cfg)
    (f : String) (hf₁ : f ∈ cb₁) (hf₂ : f ∈ cb₂) :
    (find S n cb₁ cfg).rows f = (find S n cb₂ cfg).rows f := by
  obtain ⟨cl₁, t₁, hx₁, hp₁, hl₁⟩ := member_tree_by_extension S n cb₁ cfg h₁ f (List.mem_append_left _ hf₁)
  obtain ⟨cl₂, t₂, hx₂, hp₂, hl₂⟩ := member_tree_by_extension S n cb₂ cfg h₂ f (List.mem_append_left _ hf₂)
  have hcl : cl₁ = cl₂ := by rw [hx₁] at hx₂; exact Option.some.inj hx₂
  subst hcl
  have ht : t₁ = t₂ := by rw [hp₁] at hp₂; exact Except.ok.inj hp₂
  subst ht
  unfold XW.rows
  rw [hl₁, hl₂, attribution_independent_of_excludes S n cb₁ cb₂ cfg h₁ h₂ m₁ m₂]

/-- **`setmap(cb) = setmap(cb ∖ X) + setmap(X)`** key-wise, for any membership predicate `X`
and any per-file rows (in particular the rows of a finished analysis). -/
theorem setmap_split (rows : String → List (List String × Nat)) (members : List String)
    (X : String → Bool) (key : List String) :
    setmapOf rows members key =
      setmapOf rows (members.filter fun f => !X f) key + setmapOf rows (members.filter X) key :=
  setmapOf_split rows X key members

/-- **Excluding `X` removes exactly the lines of the matched files from every platform set**: the setmap
of the analysis *with* the exclusion plus the excluded files' own setmap (taken from the analysis
without it) is the setmap without the exclusion. -/
theorem exclusion_removes_exactly (S : Sem) (n : Nat) (cb : List String) (X : String → Bool)
    (cfg : List (String × List Entry)) (key : List String)
    (h₁ : PreOK S cb cfg) (h₂ : PreOK S (cb.filter fun f => !X f) cfg)
    (m₁ : NoMix S n cb cfg) (m₂ : NoMix S n (cb.filter fun f => !X f) cfg) :
    setmapOf (find S n cb cfg).rows cb key =
      setmapOf (find S n (cb.filter fun f => !X f) cfg).rows (cb.filter fun f => !X f) key +
      setmapOf (find S n cb cfg).rows (cb.filter X) key := by
  rw [setmap_split (find S n cb cfg).rows cb X key]
  congr 1
  apply setmapOf_congr
  intro f hf
  exact rows_independent_of_excludes S n cb _ cfg h₁ h₂ m₁ m₂ f (List.mem_filter.mp hf).1 hf

/-- **`-x P…` ≡ `exclude = [P…]`**: the pattern list handed to `CodeBase` is the same. -/
theorem cli_equiv (P : List String) :
    effectivePatterns P none = effectivePatterns [] (some P) ∧
    effectivePatterns P (some []) = effectivePatterns [] (some P) := by
  simp [effectivePatterns]

/-- patterns given partly with `-x` and partly in the analysis file act like their concatenation
(command line first) given in either place -/
theorem cli_equiv_concat (A B : List String) :
    effectivePatterns A (some B) = effectivePatterns (A ++ B) none ∧
    effectivePatterns A (some B) = effectivePatterns [] (some (A ++ B)) := by
  simp [effectivePatterns]

/-- hence membership in the code base is the same, whatever the pattern matcher is -/
theorem cli_equiv_member (isSource inRoot : String → Bool) (matcher : List String → String → Bool)
    (P : List String) (f : String) :
    member isSource inRoot matcher (effectivePatterns P none) f =
      member isSource inRoot matcher (effectivePatterns [] (some P)) f := by
  rw [(cli_equiv P).1]

/-! ## The one real dependency (finding D19) and non-vacuity

A toy semantics: `a.f90` (Fortran by extension) includes `h.h` (C by extension); parsed as C the header
has one node (its `#define` sits inside `/* */`), parsed as Fortran it has two. -/

def toyNode (k : NKind) : PNode := { kind := k, lines := [1] }

def toy : Sem where
  extClass := fun f =>
    if f == "h.h" || f == "b.c" then some .c else if f == "a.f90" then some .fortran else none
  parseAs := fun cl f =>
    if f == "a.f90" || f == "b.c" then .ok (#[toyNode .include, toyNode .code], [.node 0 [], .node 1 []])
    else if f == "h.h" then
      match cl with
      | .fortran => .ok (#[toyNode .define, toyNode .code], [.node 0 [], .node 1 []])
      | _ => .ok (#[toyNode .code], [.node 0 []])
    else .error (.other "FileNotFoundError")
  step := fun file idx nd l =>
    ({ l with assoc := l.assoc ++ [((file, idx), [l.plat.name])] }, if nd.kind == .include then .incl "h.h" else .stay)
  findInc := fun p _ _ => (none, p)
  mkPlat := fun pname _ => .ok { name := pname }

def toyCfg : List (String × List Entry) := [("p", [⟨"a.f90", [], [], []⟩])]

def toyCfgC : List (String × List Entry) := [("p", [⟨"b.c", [], [], []⟩])]

/-- the hypotheses of the theorems above are satisfiable on a non-trivial input: a C file including a
header, with the header in the code base and with the header excluded (it is still associated) -/
example : PreOK toy ["b.c", "h.h"] toyCfgC ∧ PreOK toy ["b.c"] toyCfgC ∧
    NoMix toy 8 ["b.c", "h.h"] toyCfgC ∧ NoMix toy 8 ["b.c"] toyCfgC ∧
    (find toy 8 ["b.c"] toyCfgC).loc.assoc = [(("b.c", 0), ["p"]), (("h.h", 0), ["p"]), (("b.c", 1), ["p"])] := by
  unfold PreOK NoMix; decide

/-- the rows of the excluded header are not counted, the rows of `b.c` are -/
example : setmapOf (find toy 8 ["b.c"] toyCfgC).rows ["b.c"] ["p"] = 2 ∧
    setmapOf (find toy 8 ["b.c", "h.h"] toyCfgC).rows ["b.c", "h.h"] ["p"] = 3 := by decide

/-- **Finding D19 (the one real dependency)**: without `NoMix` the attribution *does* depend on the code
base.  With `h.h` in the code base it is parsed as C (one node); with `h.h` excluded it is first reached
from `a.f90` and parsed as Fortran (two nodes, the commented-out `#define` becomes live).  Both
analyses succeed; the second one logs a mixing event. -/
theorem d19_dependency :
    ∃ (S : Sem) (n : Nat) (cfg : List (String × List Entry)) (cb₁ cb₂ : List String),
      PreOK S cb₁ cfg ∧ PreOK S cb₂ cfg ∧ NoMix S n cb₁ cfg ∧ (find S n cb₂ cfg).mixed ≠ [] ∧
      (find S n cb₁ cfg).loc.err = none ∧ (find S n cb₂ cfg).loc.err = none ∧
      (find S n cb₁ cfg).loc.assoc ≠ (find S n cb₂ cfg).loc.assoc :=
  ⟨toy, 8, toyCfg, ["a.f90", "h.h"], ["a.f90"], by unfold PreOK NoMix; decide⟩

/-- the statement without the `NoMix` guard … -/
def AttributionIndependentUnguarded : Prop :=
  ∀ (S : Sem) (n : Nat) (cb₁ cb₂ : List String) (cfg : List (String × List Entry)),
    PreOK S cb₁ cfg → PreOK S cb₂ cfg → (find S n cb₁ cfg).loc.assoc = (find S n cb₂ cfg).loc.assoc

/-- … is false for the model of the code as it is (D19) -/
theorem not_attributionIndependentUnguarded : ¬ AttributionIndependentUnguarded := by
  intro h
  obtain ⟨S, n, cfg, cb₁, cb₂, h₁, h₂, _, _, _, _, hne⟩ := d19_dependency
  exact hne (h S n cb₁ cb₂ cfg h₁ h₂)

/-! ## the instance the driver runs: the value of a controlling expression -/

/-- In the semantics `Exclude.sem fs` (what op `c10find` and, through `FindCache.semC`, op `c08find` execute) an `#if`/`#elif`
has the value `PP.condValue`: the evaluation by `Eval.evaluatePP` (the C02 evaluator) of the expansion by the total step
machine `MX.cbiExpand` (the model of the C03 theorems) under the platform's macro table — the same definition as in the
single-file model of C01 and the multi-file model of C04; no `partial def` is executed. -/
theorem cond_is_expand_then_eval (l : Local) (toks : List Tok) (h : l.err = none) :
    evalCondL l toks =
      match CbiVerif.MX.cbiExpand l.plat.tbl toks with
      | .ok ts => (match CbiVerif.Eval.evaluatePP ts with | .ok b => (b, l) | .error e => (false, l.fail e))
      | .error e => (false, l.fail e)
      | .fuel => (false, l.fail (.other "ModelOutOfFuel")) := by
  unfold evalCondL
  rw [h, condValue_eq]
  cases CbiVerif.MX.cbiExpand l.plat.tbl toks with
  | ok ts => simp only []; cases CbiVerif.Eval.evaluatePP ts <;> rfl
  | error e => rfl
  | fuel => rfl

/-- non-vacuity: `#if A > 1 && defined(B)` under `-DA=2 -DB` -/
example : (evalCondL { plat := { name := "p", tbl :=
      [("A", ⟨"A", none, false, false, [], [⟨.num, "2", false, true⟩]⟩), ("B", ⟨"B", none, false, false, [], [⟨.num, "1", false, true⟩]⟩)] } }
    (tokenize "A > 1 && defined(B)")).1 = true := by decide +kernel

end CbiVerif.C10
