import CbiVerif.Lemmas.FindInc
/-! Memo erasure for C04.include_semantics: the associator with the memoised resolver and the one with the
memo-free compiler's rule walk in lock step; their worlds differ only in the memo. -/
namespace CbiVerif.Inc
open CbiVerif.PP CbiVerif.Cond CbiVerif.MF CbiVerif.IncludeSearch

/-- forget the memo -/
def World.erase (w : World) : World := { w with plat := { w.plat with memo := [] } }

@[simp] theorem erase_st (w : World) : w.erase.st = w.st := rfl
@[simp] theorem erase_tbl (w : World) : w.erase.plat.tbl = w.plat.tbl := rfl
@[simp] theorem erase_skip (w : World) : w.erase.plat.skip = w.plat.skip := rfl
@[simp] theorem erase_incPaths (w : World) : w.erase.plat.incPaths = w.plat.incPaths := rfl
@[simp] theorem erase_name (w : World) : w.erase.plat.name = w.plat.name := rfl
@[simp] theorem erase_memo (w : World) : w.erase.plat.memo = [] := rfl
@[simp] theorem erase_setErr (w : World) (e : Err) : (w.setErr e).erase = w.erase.setErr e := rfl

/-- the two runs are in step: same world up to the memo, and the memo of the code's run is sound -/
def ERel (fs : FS) (w w' : World) : Prop := w' = w.erase ∧ WarnInv fs w

theorem evalCondW_erase (w : World) (t : List Tok) :
    evalCondW w.erase t = ((evalCondW w t).1, (evalCondW w t).2.erase) := by
  unfold evalCondW
  obtain ⟨st, ⟨nm, tbl, skip, paths, memo⟩⟩ := w
  dsimp only [World.erase]
  cases st.err with
  | some e => rfl
  | none =>
    simp only []
    cases condValue tbl t with
    | ok b => rfl
    | error e => rfl

theorem includeStep_erase (fs : FS) (pfs : ParsedFS) (file : String) (w : World) (idx : Nat) (n : PNode) (h : WarnInv fs w) :
    includeStep false fs pfs file w.erase idx n =
      ((includeStep true fs pfs file w idx n).1, (includeStep true fs pfs file w idx n).2.erase) := by
  unfold includeStep
  obtain ⟨st, ⟨nm, tbl, skip, paths, memo⟩⟩ := w
  dsimp only [World.erase]
  cases includeTarget tbl n.toks with
  | error e => rfl
  | ok ps =>
    simp only []
    obtain ⟨h1, _⟩ := lookupWith_true_spec fs paths memo ⟨ps.1, dirnameK file, ps.2⟩ h.sound
    rw [h1]
    simp only [lookupWith, Bool.false_eq_true, if_false]
    cases IncMemo.resolveM fs.env paths ⟨ps.1, dirnameK file, ps.2⟩ with
    | none => rfl
    | some inc =>
      dsimp only []
      split
      · rfl
      · split <;> rfl

theorem enter_erase (fs : FS) (pfs : ParsedFS) (file : String) (w : World) (idx : Nat) (h : WarnInv fs w) :
    enter false fs pfs file w.erase idx = ((enter true fs pfs file w idx).1, (enter true fs pfs file w idx).2.erase) := by
  unfold enter
  obtain ⟨st, ⟨nm, tbl, skip, paths, memo⟩⟩ := w
  dsimp only [World.erase]
  cases st.err with
  | some e => rfl
  | none =>
    simp only []
    cases pfs.node file idx with
    | none => rfl
    | some n =>
      dsimp only []
      cases n.kind with
      | pragma =>
        simp only []
        cases n.toks with
        | nil => rfl
        | cons t ts =>
          dsimp only []
          by_cases hc : (t.spell == "once" && !skip.contains file) = true
          · simp only [hc, ↓reduceIte]
          · simp only [hc, Bool.false_eq_true, ↓reduceIte]
      | define =>
        simp only []
        cases makeMacro n.name n.margs n.toks with
        | ok m =>
          dsimp only []
          by_cases hc : (tbl.get n.name).isSome = true
          · simp only [hc, ↓reduceIte]
          · simp only [hc, Bool.false_eq_true, ↓reduceIte]
        | error e => rfl
      | undef => rfl
      | «include» => exact includeStep_erase fs pfs file ⟨st, ⟨nm, tbl, skip, paths, memo⟩⟩ idx n h
      | code => rfl
      | ifk => rfl
      | elifk => rfl
      | elsek => rfl
      | endk => rfl
      | unrecognized => rfl

theorem ops_erase (fs : FS) (pfs : ParsedFS) : OpsRel (ERel fs) (ops fs pfs) (opsSpec fs pfs) where
  evalIf file w w' i hw := by
    obtain ⟨rfl, hinv⟩ := hw
    simp only [ops, opsSpec, opsWith]
    have hi := (ops_warnInv fs pfs).evalIf file w i hinv
    simp only [ops, opsWith] at hi
    cases hn : pfs.node file i with
    | none => exact ⟨rfl, rfl, hinv⟩
    | some n =>
      rw [hn] at hi
      simp only []
      rw [evalCondW_erase]
      exact ⟨rfl, rfl, hi⟩
  enter file w w' i hw := by
    obtain ⟨rfl, hinv⟩ := hw
    simp only [ops, opsSpec, opsWith]
    rw [enter_erase fs pfs file w i hinv]
    exact ⟨rfl, rfl, enter_inv fs pfs file w i hinv⟩
  labels file := rfl
  record w w' file out hw := by
    obtain ⟨rfl, hinv⟩ := hw
    exact ⟨rfl, (ops_warnInv fs pfs).record w file out hinv⟩
  noFuel w w' hw := by
    obtain ⟨rfl, hinv⟩ := hw
    exact ⟨rfl, hinv.setErr _⟩
  crash w w' hw := by
    obtain ⟨rfl, hinv⟩ := hw
    exact ⟨rfl, hinv.setErr _⟩

end CbiVerif.Inc

namespace CbiVerif.Inc
open CbiVerif.PP CbiVerif.Cond CbiVerif.MF CbiVerif.IncludeSearch

/-- every parsed file is a structured (well-nested) program -/
def WFparsed (pfs : ParsedFS) : Prop := ∀ f p, pfs.get f = some (.ok p) → ∃ b : Block, p.lbls = b.lines

theorem wellNested_of_WFparsed (m : Bool) (fs : FS) (pfs : ParsedFS) (h : WFparsed pfs) : WellNested (opsWith m fs pfs) := by
  intro file
  simp only [opsWith]
  cases hg : pfs.get file with
  | none => exact ⟨.nil, by simp [Block.lines]⟩
  | some r =>
    cases r with
    | error e => exact ⟨.nil, by simp [Block.lines]⟩
    | ok p => exact h file p hg

/-- one file: the code's associator with the memo, and the flat reference with the compiler's rule, in step -/
theorem assocFile_erase (fs : FS) (pfs : ParsedFS) (hwf : WFparsed pfs) (fuel : Nat) (file : String) (w : World)
    (h : WarnInv fs w) :
    runFileRef (opsSpec fs pfs) fuel file w.erase = (assocFile (ops fs pfs) fuel file w).erase ∧
    WarnInv fs (assocFile (ops fs pfs) fuel file w) := by
  have hs := assocFile_sim (ERel fs) (ops fs pfs) (opsSpec fs pfs) (ops_erase fs pfs) fuel file w w.erase ⟨rfl, h⟩
  rw [← assocFile_eq_ref (opsSpec fs pfs) (wellNested_of_WFparsed false fs pfs hwf)]
  exact hs

theorem forced_erase (fs : FS) (pfs : ParsedFS) (hwf : WFparsed pfs) (fuel : Nat) (src : String) (w : World) (inc : String)
    (h : WarnInv fs w) :
    forcedWith false (runFileRef (opsSpec fs pfs) fuel) fs pfs src w.erase inc =
      (forcedWith true (assocFile (ops fs pfs) fuel) fs pfs src w inc).erase := by
  have hinv := forced_inv fs pfs fuel src w inc h
  unfold forcedWith at hinv ⊢
  obtain ⟨h1, h2⟩ := lookupWith_true_spec fs w.plat.incPaths w.plat.memo ⟨inc, dirnameK src, false⟩ h.sound
  obtain ⟨st, ⟨nm, tbl, skip, paths, memo⟩⟩ := w
  dsimp only [World.erase] at h1 h2 hinv ⊢
  by_cases he : st.err.isSome = true
  · simp only [he, ↓reduceIte]
  · simp only [he, Bool.false_eq_true, ↓reduceIte] at hinv ⊢
    rw [h1] at hinv ⊢
    simp only [lookupWith, Bool.false_eq_true, ↓reduceIte] at hinv ⊢
    cases hr : IncMemo.resolveM fs.env paths ⟨inc, dirnameK src, false⟩ with
    | none => rfl
    | some f =>
      rw [hr] at hinv
      dsimp only [] at hinv ⊢
      by_cases hs : skip.contains (fs.realpath f) = true
      · simp only [hs, ↓reduceIte]
      · simp only [hs, Bool.false_eq_true, ↓reduceIte] at hinv ⊢
        by_cases he2 : (PState.insertFile { st with visits := st.visits ++ [(⟨src, 0, 0, inc, false, paths, some f⟩ : Visit)] }
            pfs (fs.realpath f)).err.isSome = true
        · simp only [he2, ↓reduceIte]
        · simp only [he2, Bool.false_eq_true, ↓reduceIte]
          obtain ⟨fa, fb, _⟩ := insertFile_frame { st with visits := st.visits ++ [(⟨src, 0, 0, inc, false, paths, some f⟩ : Visit)] }
            pfs (fs.realpath f)
          have hg : ∀ v ∈ st.visits ++ [(⟨src, 0, 0, inc, false, paths, some f⟩ : Visit)], v.ok fs := by
            intro v hv
            rcases List.mem_append.mp hv with hv | hv
            · exact h.st.ghost v hv
            · simp at hv; subst hv; exact hr.symm
          have hw : st.warns = unresolved (st.visits ++ [(⟨src, 0, 0, inc, false, paths, some f⟩ : Visit)]) := by
            rw [unresolved_append, ← h.st.warns]; simp [unresolved]
          have hw2 : WarnInv fs ⟨PState.insertFile { st with visits := st.visits ++ [(⟨src, 0, 0, inc, false, paths, some f⟩ : Visit)] }
              pfs (fs.realpath f), ⟨nm, tbl, skip, paths, (IncMemo.find fs.env paths memo ⟨inc, dirnameK src, false⟩).2⟩⟩ := by
            refine ⟨?_, ⟨by rw [fa, fb]; exact hw, by rw [fb]; exact hg⟩⟩
            simpa [lookupWith] using h2
          exact (assocFile_erase fs pfs hwf fuel _ _ hw2).1

theorem forced_fold_erase (fs : FS) (pfs : ParsedFS) (hwf : WFparsed pfs) (fuel : Nat) (src : String) (incs : List String)
    (w : World) (h : WarnInv fs w) :
    incs.foldl (forcedWith false (runFileRef (opsSpec fs pfs) fuel) fs pfs src) w.erase =
      (incs.foldl (forcedWith true (assocFile (ops fs pfs) fuel) fs pfs src) w).erase := by
  induction incs generalizing w with
  | nil => rfl
  | cons i incs ih =>
    simp only [List.foldl_cons]
    rw [forced_erase fs pfs hwf fuel src w i h]
    exact ih _ (forced_inv fs pfs fuel src w i h)

theorem runEntry_erase (fs : FS) (pfs : ParsedFS) (hwf : WFparsed pfs) (fuel : Nat) (pname : String) (st : PState) (e : Entry)
    (h : StInv fs st) :
    runEntryWith false (runFileRef (opsSpec fs pfs) fuel) fs pfs pname st e =
      runEntryWith true (assocFile (ops fs pfs) fuel) fs pfs pname st e := by
  unfold runEntryWith
  by_cases he : st.err.isSome = true
  · simp only [he, ↓reduceIte]
  · simp only [he, Bool.false_eq_true, ↓reduceIte]
    cases buildDefines e.defines [] with
    | error er => rfl
    | ok tbl =>
      dsimp only []
      have h0 : WarnInv fs { st := st, plat := { name := pname, tbl := tbl, incPaths := e.includePaths } } :=
        ⟨IncMemo.sound_nil _ _, h⟩
      have hf := forced_fold_erase fs pfs hwf fuel e.file e.includeFiles _ h0
      have h1 := foldl_inv (WarnInv fs) _ (fun a x ha => forced_inv fs pfs fuel e.file a x ha) e.includeFiles _ h0
      have he0 : ({ st := st, plat := { name := pname, tbl := tbl, incPaths := e.includePaths } } : World).erase =
          { st := st, plat := { name := pname, tbl := tbl, incPaths := e.includePaths } } := rfl
      rw [he0] at hf
      rw [hf]
      generalize e.includeFiles.foldl (forcedWith true (assocFile (ops fs pfs) fuel) fs pfs e.file)
        { st := st, plat := { name := pname, tbl := tbl, incPaths := e.includePaths } } = w1 at h1 ⊢
      by_cases he1 : w1.st.err.isSome = true
      · simp only [erase_st, he1, ↓reduceIte]
      · simp only [erase_st, he1, Bool.false_eq_true, ↓reduceIte]
        rw [(assocFile_erase fs pfs hwf fuel _ w1 h1).1]
        rfl

end CbiVerif.Inc
