import CbiVerif.Lemmas.EvalLit
import CbiVerif.Lemmas.EvalChar
import CbiVerif.Lemmas.EvalArith
import CbiVerif.Lemmas.ClimbProof
/-! C02: composition — parse trees of the specification as trees of the generic climbing definition
    (well-formedness w.r.t. the GENERATED table, values, rendering), eager model value = lazy C value. -/
namespace CbiVerif.EvalMain
open CbiVerif.PP CbiVerif.Climb CbiVerif.CExpr CbiVerif.Eval CbiVerif.EvalBridge CbiVerif.EvalArith CbiVerif.EvalLit CbiVerif.EvalChar

/-! ### the generated table -/

theorem binInfo_sym (op : BinOp) : binInfo op.sym = some (op.prec, false) := by cases op <;> decide
theorem unPrec_sym (op : UnOp) : unPrec op.sym = some 12 := by cases op <;> decide
theorem sym_ne_quest (op : BinOp) : op.sym ≠ "?" := by cases op <;> decide

theorem binInfo_range (s : String) (p : Nat) (ra : Bool) (h : binInfo s = some (p, ra)) : 1 ≤ p ∧ p ≤ 11 := by
  have hall : (Gen.binaryOps.all fun r => decide (1 ≤ r.2.1) && decide (r.2.1 ≤ 11)) = true := by decide
  simp only [binInfo, Option.map_eq_some_iff] at h
  obtain ⟨e, he, h2⟩ := h
  have hm := List.mem_of_find?_eq_some he
  rw [List.all_eq_true] at hall
  have := hall e hm
  simp only [Bool.and_eq_true, decide_eq_true_eq] at this
  rw [h2] at this
  exact this

theorem ops_un (n : Nat) : (opsN n).un = applyUnary := by cases n <;> rfl
theorem ops_bin (n : Nat) : (opsN n).bin = applyBinary := by cases n <;> rfl
theorem ops_tern (n : Nat) : (opsN n).tern = applyTernary := by cases n <;> rfl
theorem ops_unPrec (n : Nat) : (opsN n).unPrec = unPrec := by cases n <;> rfl
theorem ops_binInfo (n : Nat) : (opsN n).binInfo = binInfo := by cases n <;> rfl
theorem ops_leaf (n : Nat) : ∃ args, (opsN n).leaf = leafWith args := by
  cases n with
  | zero => exact ⟨fun _ => .error (.other 0), rfl⟩
  | succ n => exact ⟨argList fun ts => expr (opsN n) (3 * ts.length + 4) 0 ts, rfl⟩

/-- the generated table satisfies the side conditions of the climbing theorem -/
theorem tableOK (n : Nat) : TableOK (opsN n) where
  range := by rw [ops_binInfo]; exact binInfo_range
  colon := by rw [ops_binInfo]; decide
  rparen := by rw [ops_binInfo]; decide
  quest := by rw [ops_binInfo]; decide

/-! ### leaves -/

def lit1 : Lit := ⟨.dec, false, [⟨1, false⟩], ⟨.none, .none, false⟩⟩
def lit0 : Lit := ⟨.oct, false, [], ⟨.none, .none, false⟩⟩
theorem literal_one : Eval.literal "1" = .ok ⟨false, 1⟩ := by
  have h := literal_model lit1 (by decide)
  have hs : lit1.spell = "1" := by decide
  rw [hs] at h; rw [h]
  simp [lit1, Lit.value, Suffix.isUnsigned, two63, Base.radix]
theorem literal_zero : Eval.literal "0" = .ok ⟨false, 0⟩ := by
  have h := literal_model lit0 (by decide)
  have hs : lit0.spell = "0" := by decide
  rw [hs] at h; rw [h]
  simp [lit0, Lit.value, Suffix.isUnsigned, two63]

theorem leaf_num (args) (s : String) (v : Eval.Val) (rest : List Tok) (h : Eval.literal s = .ok v) :
    leafWith args (numTok s :: rest) = .ok (v, rest) := by
  simp [leafWith, numTok, h]

theorem leaf_chr (args) (cs : List Char) (n : Int) (rest : List Tok) (h : characterValue cs = .ok n) :
    leafWith args (chrTok (String.ofList cs) :: rest) = .ok (⟨false, n⟩, rest) := by
  simp [leafWith, chrTok, String.toList_ofList, h]

theorem leaf_ident (args) (n : String) (rest : List Tok) (h : noLP rest) :
    leafWith args (identTok n :: rest) = .ok (Eval.zero, rest) := by
  cases rest with
  | nil => simp [leafWith, identTok]
  | cons p r =>
    simp only [noLP] at h
    simp [leafWith, identTok, h]

/-- constants are legal, have a C value, and are outside the recorded class D8 -/
def leavesOK (a : CExpr.Ast) : Prop :=
  a.constsOK = true ∧ usesBigUnsuffixed a = false

theorem litVal_spec (l : Lit) (hv : l.valid = true) (v : CExpr.Val) (hc : cLiteral l = some v)
    (hk : bigUnsuffixed l = false) : Eval.literal l.spell = .ok (litVal l) ∧ litVal l = mval v := by
  have h := literal_value l hv v hc hk
  simp [litVal, h]

theorem toClimb_level (env : Env) (a : CExpr.Ast) : (toClimb env a).level = a.level := by
  cases a <;> rfl
theorem toClimb_rbound (env : Env) (a : CExpr.Ast) (h : 2 ≤ a.level) : (toClimb env a).rbound = a.level := by
  rw [rbound_eq _ (by rw [toClimb_level]; exact h), toClimb_level]
theorem prec_ge_two (op : BinOp) : 2 ≤ op.prec := by cases op <;> decide

/-- a grammatical tree with legal constants outside D8 is well-formed for the climbing parser
    driven by the generated table -/
theorem toClimb_wf (env : Env) (n : Nat) (a : CExpr.Ast) (hg : a.grammatical = true) (hl : leavesOK a) :
    (toClimb env a).WF (opsN n) := by
  obtain ⟨args, hargs⟩ := ops_leaf n
  induction a with
  | lit l =>
    obtain ⟨hc, hk⟩ := hl
    simp only [Ast.constsOK, Bool.and_eq_true, Option.isSome_iff_exists] at hc
    obtain ⟨hv, v, hcv⟩ := hc
    have hlit := (litVal_spec l hv v hcv (by simpa [usesBigUnsuffixed, bigUnsuffixed] using hk)).1
    refine ⟨⟨numTok l.spell, [], rfl, by simp [numTok], by simp [isPunct, numTok]⟩, ?_⟩
    intro rest _
    rw [hargs]; exact leaf_num args _ _ rest hlit
  | chr c =>
    obtain ⟨hc, _⟩ := hl
    simp only [Ast.constsOK, Option.isSome_iff_exists] at hc
    obtain ⟨v, hcv⟩ := hc
    obtain ⟨hval, _⟩ := chr_spec c v hcv
    have hcv2 : chrVal c = ⟨false, (mval v).v⟩ := by simp only [chrVal, hval]
    refine ⟨⟨chrTok _, [], rfl, by simp [chrTok], by simp [isPunct, chrTok]⟩, ?_⟩
    intro rest _
    rw [hargs, hcv2]; exact leaf_chr args c.chars _ rest hval
  | ident nm =>
    refine ⟨⟨identTok nm, [], rfl, by simp [identTok], by simp [isPunct, identTok]⟩, ?_⟩
    intro rest hr
    rw [hargs]; exact leaf_ident args nm rest hr
  | defd nm p =>
    refine ⟨⟨definedTok env nm, [], rfl, by simp [definedTok, numTok], by simp [isPunct, definedTok, numTok]⟩, ?_⟩
    intro rest _
    rw [hargs]
    simp only [definedTok, List.cons_append, List.nil_append]
    cases env nm
    · exact leaf_num args "0" _ rest literal_zero
    · exact leaf_num args "1" _ rest literal_one
  | paren a ih =>
    exact ih hg ⟨hl.1, hl.2⟩
  | un op a ih =>
    simp only [Ast.grammatical, Bool.and_eq_true, decide_eq_true_eq] at hg
    refine ⟨by rw [ops_unPrec]; exact unPrec_sym op, ih hg.1 ⟨hl.1, hl.2⟩, by rw [toClimb_level]; exact hg.2⟩
  | bin op l r ihl ihr =>
    simp only [Ast.grammatical, Bool.and_eq_true, decide_eq_true_eq] at hg
    obtain ⟨⟨⟨hgl, hgr⟩, hll⟩, hlr⟩ := hg
    obtain ⟨hc, hk2⟩ := hl
    simp only [Ast.constsOK, Bool.and_eq_true] at hc
    simp only [usesBigUnsuffixed, Bool.or_eq_false_iff] at hk2
    have hp := prec_ge_two op
    refine ⟨by rw [ops_binInfo]; exact binInfo_sym op, sym_ne_quest op, ihl hgl ⟨hc.1, hk2.1⟩, ihr hgr ⟨hc.2, hk2.2⟩,
      by rw [toClimb_level]; exact hll, by rw [toClimb_level]; exact hlr, ?_⟩
    rw [toClimb_rbound env l (by omega)]; exact hll
  | tern c t e ihc iht ihe =>
    simp only [Ast.grammatical, Bool.and_eq_true, decide_eq_true_eq] at hg
    obtain ⟨⟨⟨hgc, hgt⟩, hge⟩, hlc⟩ := hg
    obtain ⟨hc, hk2⟩ := hl
    simp only [Ast.constsOK, Bool.and_eq_true] at hc
    simp only [usesBigUnsuffixed, Bool.or_eq_false_iff] at hk2
    refine ⟨ihc hgc ⟨hc.1.1, hk2.1.1⟩, iht hgt ⟨hc.1.2, hk2.1.2⟩, ihe hge ⟨hc.2, hk2.2⟩,
      by rw [toClimb_level]; exact hlc, ?_⟩
    rw [toClimb_rbound env c hlc]; omega

theorem meval_paren (env) (a) : meval env (.paren a) = meval env a := rfl
theorem meval_un (env) (op) (a) : meval env (.un op a) = applyUnary op.sym (meval env a) := rfl
theorem meval_bin (env) (op) (l r) : meval env (.bin op l r) = applyBinary op.sym (meval env l) (meval env r) := rfl
theorem meval_tern (env) (c t e) : meval env (.tern c t e) = applyTernary (meval env c) (meval env t) (meval env e) := rfl

theorem utype_bin (op : BinOp) (l r : CExpr.Ast) : (CExpr.Ast.bin op l r).utype = binU op l.utype r.utype := by
  cases op <;> rfl
theorem utype_un (op : UnOp) (a : CExpr.Ast) : (CExpr.Ast.un op a).utype = unU op a.utype := by
  cases op <;> rfl

theorem leavesOK_bin {op l r} (h : leavesOK (.bin op l r)) : leavesOK l ∧ leavesOK r := by
  obtain ⟨hc, hk2⟩ := h
  simp only [Ast.constsOK, Bool.and_eq_true] at hc
  simp only [usesBigUnsuffixed, Bool.or_eq_false_iff] at hk2
  exact ⟨⟨hc.1, hk2.1⟩, ⟨hc.2, hk2.2⟩⟩
theorem leavesOK_tern {c t e} (h : leavesOK (.tern c t e)) : leavesOK c ∧ leavesOK t ∧ leavesOK e := by
  obtain ⟨hc, hk2⟩ := h
  simp only [Ast.constsOK, Bool.and_eq_true] at hc
  simp only [usesBigUnsuffixed, Bool.or_eq_false_iff] at hk2
  exact ⟨⟨hc.1.1, hk2.1.1⟩, ⟨hc.1.2, hk2.1.2⟩, ⟨hc.2, hk2.2⟩⟩

/-- the signedness of the evaluator's (eager, total) value is the static C type, also for operands
    whose C value is undefined -/
theorem meval_unsigned (env : Env) (a : CExpr.Ast) (hl : leavesOK a) : (meval env a).unsigned = a.utype := by
  induction a with
  | lit l =>
    obtain ⟨hc, hk⟩ := hl
    simp only [Ast.constsOK, Bool.and_eq_true, Option.isSome_iff_exists] at hc
    obtain ⟨hv, v, hcv⟩ := hc
    have h := (litVal_spec l hv v hcv (by simpa [usesBigUnsuffixed, bigUnsuffixed] using hk)).2
    simp only [meval, toClimb, Climb.Ast.eval, h, Ast.utype, hcv]; rfl
  | chr c => exact chrVal_unsigned c
  | ident nm => rfl
  | defd nm p => rfl
  | paren a ih => exact ih hl
  | un op a ih =>
    rw [meval_un, applyUnary_unsigned, utype_un, ih ⟨hl.1, hl.2⟩]
  | bin op l r ihl ihr =>
    obtain ⟨h1, h2⟩ := leavesOK_bin hl
    rw [meval_bin, applyBinary_unsigned, utype_bin, ihl h1, ihr h2]
  | tern c t e _ iht ihe =>
    obtain ⟨_, h2, h3⟩ := leavesOK_tern hl
    rw [meval_tern, applyTernary_unsigned, iht h2, ihe h3]; rfl

theorem mval_ofBool_v_false : (mval (Val.ofBool false)) = ⟨false, 0⟩ := by decide
theorem mval_ofBool_true : (mval (Val.ofBool true)) = ⟨false, 1⟩ := by decide

/-- dead operands are irrelevant: whatever value `r` the evaluator computed for them -/
theorem land_dead (x : CExpr.Val) (r : Eval.Val) (h : (x.bits == 0#64) = true) :
    applyBinary "&&" (mval x) r = mval (Val.ofBool false) := by
  have : ((mval x).v != 0) = false := by rw [mval_v_ne_zero]; simp only [bne, h]; rfl
  simp only [applyBinary, String.reduceBEq, Bool.false_eq_true, if_false, if_true, this, Bool.false_and, b2v_ofBool]
theorem lor_dead (x : CExpr.Val) (r : Eval.Val) (h : (x.bits != 0#64) = true) :
    applyBinary "||" (mval x) r = mval (Val.ofBool true) := by
  have : ((mval x).v != 0) = true := by rw [mval_v_ne_zero]; exact h
  simp only [applyBinary, String.reduceBEq, Bool.false_eq_true, if_false, if_true, this, Bool.true_or, b2v_ofBool]
theorem tern_dead_e (c t : CExpr.Val) (e : Eval.Val) (h : (c.bits != 0#64) = true) :
    applyTernary (mval c) (mval t) e = mval ⟨t.unsigned || e.unsigned, t.bits⟩ := by
  have : ((mval c).v != 0) = true := by rw [mval_v_ne_zero]; exact h
  simp only [applyTernary, this, if_true, mval_u]
  rw [cInt_mval]
theorem tern_dead_t (c e : CExpr.Val) (t : Eval.Val) (h : (c.bits != 0#64) = false) :
    applyTernary (mval c) t (mval e) = mval ⟨t.unsigned || e.unsigned, e.bits⟩ := by
  have : ((mval c).v != 0) = false := by rw [mval_v_ne_zero]; exact h
  simp only [applyTernary, this, Bool.false_eq_true, if_false, mval_u]
  rw [cInt_mval]

/-- the evaluator's eager value of a tree is the C value wherever C defines one -/
theorem meval_spec (env : Env) (a : CExpr.Ast) (hl : leavesOK a) (v : CExpr.Val) (h : cEval env a = some v) :
    meval env a = mval v := by
  induction a generalizing v with
  | lit l =>
    obtain ⟨hc, hk⟩ := hl
    simp only [Ast.constsOK, Bool.and_eq_true] at hc
    simp only [cEval] at h
    exact (litVal_spec l hc.1 v h (by simpa [usesBigUnsuffixed, bigUnsuffixed] using hk)).2
  | chr c =>
    simp only [cEval] at h
    exact (chr_spec c v h).2
  | ident nm =>
    simp only [cEval, Option.some.injEq] at h; subst h
    simp [meval, toClimb, Climb.Ast.eval, mval, Eval.zero]
  | defd nm p =>
    simp only [cEval, Option.some.injEq] at h; subst h
    simp only [meval, toClimb, Climb.Ast.eval]
    cases env nm <;> decide
  | paren a ih => exact ih hl v h
  | un op a ih =>
    simp only [cEval] at h
    split at h
    · rename_i x hx
      rw [meval_un, ih ⟨hl.1, hl.2⟩ x hx]
      exact applyUnary_spec op x v h
    · simp at h
  | bin op l r ihl ihr =>
    obtain ⟨h1, h2⟩ := leavesOK_bin hl
    rw [meval_bin]
    by_cases hland : op = .land
    · subst hland
      simp only [cEval] at h
      split at h
      · simp at h
      · rename_i x hx
        rw [ihl h1 x hx]
        split at h
        · rename_i hz
          simp only [Option.some.injEq] at h; subst h
          exact land_dead x _ hz
        · rename_i hz
          split at h
          · rename_i y hy
            simp only [Option.some.injEq] at h; subst h
            rw [ihr h2 y hy, BinOp.sym, land_ok]
            have : (x.bits != 0#64) = true := by simpa [bne] using hz
            rw [this, Bool.true_and]
          · simp at h
    · by_cases hlor : op = .lor
      · subst hlor
        simp only [cEval] at h
        split at h
        · simp at h
        · rename_i x hx
          rw [ihl h1 x hx]
          split at h
          · rename_i hz
            simp only [Option.some.injEq] at h; subst h
            exact lor_dead x _ hz
          · rename_i hz
            split at h
            · rename_i y hy
              simp only [Option.some.injEq] at h; subst h
              rw [ihr h2 y hy, BinOp.sym, lor_ok]
              have : (x.bits != 0#64) = false := by simpa using hz
              rw [this, Bool.false_or]
            · simp at h
      · have hstrict : cEval env (.bin op l r) = (match cEval env l, cEval env r with
            | some x, some y => cBin op x y | _, _ => none) := by
          cases op <;> first | rfl | contradiction
        rw [hstrict] at h
        split at h
        · rename_i x y hx hy
          rw [ihl h1 x hx, ihr h2 y hy]
          exact applyBinary_spec op x y v h
        · simp at h
  | tern c t e ihc iht ihe =>
    obtain ⟨h1, h2, h3⟩ := leavesOK_tern hl
    rw [meval_tern]
    simp only [cEval] at h
    split at h
    · simp at h
    · rename_i x hx
      rw [ihc h1 x hx]
      split at h
      · rename_i w hw
        simp only [Option.some.injEq] at h; subst h
        by_cases hz : (x.bits != 0#64) = true
        · simp only [hz, if_true] at hw
          rw [iht h2 w hw, tern_dead_e x w _ hz, meval_unsigned env e h3]
          have : w.unsigned = t.utype := by
            have := meval_unsigned env t h2; rw [iht h2 w hw] at this; exact this
          rw [this]
        · have hz' : (x.bits != 0#64) = false := by simpa using hz
          simp only [hz', Bool.false_eq_true, if_false] at hw
          rw [ihe h3 w hw, tern_dead_t x w _ hz', meval_unsigned env t h2]
          have : w.unsigned = e.utype := by
            have := meval_unsigned env e h3; rw [ihe h3 w hw] at this; exact this
          rw [this]
      · simp at h

theorem size_le_render {V : Type} (O : EvOps V) (a : Climb.Ast V) (h : a.WF O) : a.size ≤ a.render.length := by
  induction a with
  | leaf ts v =>
    obtain ⟨⟨t, r, rfl, _, _⟩, _⟩ := h
    simp [Climb.Ast.size, Climb.Ast.render]
  | paren a ih =>
    have := ih h
    simp only [Climb.Ast.size, Climb.Ast.render, List.length_cons, List.length_append, List.length_nil]; omega
  | un s a ih =>
    have := ih h.2.1
    simp only [Climb.Ast.size, Climb.Ast.render, List.length_cons]; omega
  | bin s p l r ihl ihr =>
    have h1 := ihl h.2.2.1
    have h2 := ihr h.2.2.2.1
    simp only [Climb.Ast.size, Climb.Ast.render, List.length_cons, List.length_append]; omega
  | tern c t e ihc iht ihe =>
    have h1 := ihc h.1
    have h2 := iht h.2.1
    have h3 := ihe h.2.2.1
    simp only [Climb.Ast.size, Climb.Ast.render, List.length_cons, List.length_append]; omega

theorem eval_indep (n m : Nat) (a : Climb.Ast Eval.Val) : a.eval (opsN n) = a.eval (opsN m) := by
  induction a with
  | leaf ts v => rfl
  | paren a ih => exact ih
  | un s a ih => simp only [Climb.Ast.eval, ops_un, ih]
  | bin s p l r ihl ihr => simp only [Climb.Ast.eval, ops_bin, ihl, ihr]
  | tern c t e ihc iht ihe => simp only [Climb.Ast.eval, ops_tern, ihc, iht, ihe]

/-- parser theorem instantiated with the generated table and the code's operations: the evaluator
    returns the eager value of the tree and consumes all tokens -/
theorem cbiExpr_tree (env : Env) (a : CExpr.Ast) (hg : a.grammatical = true) (hl : leavesOK a) :
    cbiExpr (render env a) = .ok (meval env a, []) := by
  have hwf := toClimb_wf env (render env a).length a hg hl
  obtain ⟨f, hf, he⟩ := climb_correct (opsN (render env a).length) (tableOK _) (toClimb env a) hwf []
    (by simp [leadPrec]) (by simp [noLP])
  have hs := size_le_render _ _ hwf
  rw [List.append_nil] at he
  have := expr_mono _ he (f' := 3 * (render env a).length + 4) (by simp only [render]; omega)
  have hr : (toClimb env a).render = render env a := rfl
  rw [hr, eval_indep _ 0] at this
  exact this

end CbiVerif.EvalMain
