import CbiVerif.Model.CText
/-! # Reference semantics for C05: which physical lines hold code outside comments

Written from the property text and ISO C translation phases 2–3 (not from the code):

* `splice`     — phase 2: every backslash-newline is deleted; each remaining character
                 keeps the number of the physical line it stands on;
* `decomment`  — phase 3 on the spliced stream: string literals, character constants and
                 escapes are recognised, every comment is replaced by one space;
* `countedLines` — the physical lines on which at least one non-white character survives;
* `logical`    — the logical lines (separated by the surviving newlines) that hold such a
                 character, each with its counted lines and whether its first surviving
                 non-white character is `#` (a directive).

Well-formedness (`wf`) and the recorded finding classes (`k1`, `k2`) are computed by
the same scanner.  Nothing here imports the model of the code; only the notion of a
physical line (`CText.rawLines`) is shared. -/
namespace CbiVerif.CLexRef
open CbiVerif.CText

/-! ## phase 2: splicing -/

inductive Item
  | ch (c : Char) (line : Nat)     -- a character standing on physical line `line`
  | nl (line : Nat)                -- a newline that is not preceded by a backslash
deriving Repr, DecidableEq, Inhabited

def endsBackslash (body : List Char) : Bool := body.getLast? == some '\\'

/-- a physical line is spliced to the next one iff it ends in backslash-newline
    (a backslash at the very end of the file makes the text ill-formed, see `noFinalBackslash`) -/
def spliced (r : RawLine) : Bool := endsBackslash r.body

/-- the items contributed by physical line `n`; the end of the file acts as a newline -/
def lineItems (n : Nat) (r : RawLine) : List Item :=
  if spliced r then r.body.dropLast.map (Item.ch · n) else r.body.map (Item.ch · n) ++ [Item.nl n]

/-- the spliced text, lines numbered from `n` -/
def splice (n : Nat) : List RawLine → List Item
  | [] => []
  | r :: rs => lineItems n r ++ splice (n + 1) rs

/-! ## phase 3: literals and comments -/

inductive Kind | slash | star | dq | sq | bslash | white | other
deriving DecidableEq, Repr, Inhabited

/-- white space of ISO C: space, horizontal tab, new-line, vertical tab, form feed (and CR) -/
def cWhite (c : Char) : Bool :=
  c.toNat == 32 || (9 ≤ c.toNat && c.toNat ≤ 13)

def kind (c : Char) : Kind :=
  if c == '/' then .slash else if c == '*' then .star else if c == '"' then .dq
  else if c == '\'' then .sq else if c == '\\' then .bslash else if cWhite c then .white else .other

/-- scanner modes: code; code with a pending `/`; inside "…" (after a backslash);
    inside '…' (nothing read yet / some c-char read / the last c-char was an unescaped `/` /
    after a backslash); line comment; block comment (after a `*`) -/
inductive DMode | code | slash | dq | dqEsc | sq0 | sqN | sqSl | sqEsc | lineC | blockC | blockStar
deriving DecidableEq, Repr, Inhabited

def DMode.inLiteral : DMode → Bool
  | .dq | .dqEsc | .sq0 | .sqN | .sqSl | .sqEsc => true
  | _ => false

/-- effect of one character: next mode; `pend`: the pending `/` was code and survives;
    `keep`: this character survives; `space`: a comment ends here and becomes one space -/
structure DOut where
  mode : DMode
  pend : Bool
  keep : Bool
  space : Bool
deriving Repr, DecidableEq

/-- `none` = not a valid preprocessing-token sequence (stray backslash, empty character
    constant) or a comment opener inside a multi-character constant (finding class F-C05-4,
    excluded from `wf`) -/
def dstep (m : DMode) (k : Kind) : Option DOut :=
  match m with
  | .code =>
    match k with
    | .bslash => none
    | .slash => some ⟨.slash, false, false, false⟩
    | .dq => some ⟨.dq, false, true, false⟩
    | .sq => some ⟨.sq0, false, true, false⟩
    | _ => some ⟨.code, false, true, false⟩
  | .slash =>
    match k with
    | .bslash => none
    | .slash => some ⟨.lineC, false, false, false⟩
    | .star => some ⟨.blockC, false, false, false⟩
    | .dq => some ⟨.dq, true, true, false⟩
    | .sq => some ⟨.sq0, true, true, false⟩
    | _ => some ⟨.code, true, true, false⟩
  | .dq =>
    match k with
    | .bslash => some ⟨.dqEsc, false, true, false⟩
    | .dq => some ⟨.code, false, true, false⟩
    | _ => some ⟨.dq, false, true, false⟩
  | .dqEsc => some ⟨.dq, false, true, false⟩
  | .sq0 =>
    match k with
    | .bslash => some ⟨.sqEsc, false, true, false⟩
    | .sq => none
    | .slash => some ⟨.sqSl, false, true, false⟩
    | _ => some ⟨.sqN, false, true, false⟩
  | .sqN =>
    match k with
    | .bslash => some ⟨.sqEsc, false, true, false⟩
    | .sq => some ⟨.code, false, true, false⟩
    | .slash => some ⟨.sqSl, false, true, false⟩
    | _ => some ⟨.sqN, false, true, false⟩
  | .sqSl =>
    match k with
    | .bslash => some ⟨.sqEsc, false, true, false⟩
    | .sq => some ⟨.code, false, true, false⟩
    | .slash => none
    | .star => none
    | _ => some ⟨.sqN, false, true, false⟩
  | .sqEsc => some ⟨.sqN, false, true, false⟩
  | .lineC => some ⟨.lineC, false, false, false⟩
  | .blockC => some ⟨if k == .star then .blockStar else .blockC, false, false, false⟩
  | .blockStar =>
    match k with
    | .slash => some ⟨.code, false, false, true⟩
    | .star => some ⟨.blockStar, false, false, false⟩
    | _ => some ⟨.blockC, false, false, false⟩

/-- a surviving character: the character, its physical line, and whether it stands inside
    a string literal or character constant; or a surviving newline (end of a logical line) -/
inductive Surv
  | ch (c : Char) (line : Nat) (lit : Bool)
  | nl (line : Nat)
deriving Repr, DecidableEq, Inhabited

/-- scanner state: mode and the physical line of the last `/` that is pending (mode `slash`)
    or is the last c-char of a character constant (mode `sqSl`) -/
structure DState where
  mode : DMode := .code
  ptag : Nat := 0
deriving Repr, DecidableEq, Inhabited

/-- result of scanning one item: next state, survivors, and whether the item reveals finding
    class F-C05-1 (a `/` that is code, separated from the next character by a splice) -/
structure DRes where
  st : DState
  out : List Surv
  k1 : Bool
deriving Repr

def decItem (s : DState) : Item → Option DRes
  | .nl n =>
    match s.mode with
    | .code => some ⟨⟨.code, s.ptag⟩, [.nl n], false⟩
    | .slash => some ⟨⟨.code, s.ptag⟩, [.ch '/' s.ptag false, .nl n], s.ptag != n⟩
    | .lineC => some ⟨⟨.code, s.ptag⟩, [.ch ' ' n false, .nl n], false⟩
    | .blockC => some ⟨⟨.blockC, s.ptag⟩, [], false⟩        -- the newline is part of the comment
    | .blockStar => some ⟨⟨.blockC, s.ptag⟩, [], false⟩
    | _ => none                                            -- unterminated literal
  | .ch c n =>
    match dstep s.mode (kind c) with
    | none => none
    | some o =>
      some ⟨⟨o.mode, if o.mode == .slash || o.mode == .sqSl then n else s.ptag⟩,
        (if o.pend then [.ch '/' s.ptag false] else []) ++ (if o.space then [.ch ' ' n false] else []) ++
          (if o.keep then [.ch c n s.mode.inLiteral] else []),
        (o.pend || s.mode == .sqSl) && s.ptag != n⟩

/-- result of scanning a whole stream -/
structure Scan where
  st : DState
  out : List Surv
  k1 : Bool
deriving Repr

def decomment (s : DState) : List Item → Option Scan
  | [] => some ⟨s, [], false⟩
  | it :: its =>
    match decItem s it with
    | none => none
    | some r =>
      match decomment r.st its with
      | none => none
      | some rest => some ⟨rest.st, r.out ++ rest.out, r.k1 || rest.k1⟩

/-! ## the text level -/

/-- the last physical line is not spliced and no line ends in a backslash without newline -/
def noFinalBackslash : List RawLine → Bool
  | [] => true
  | [r] => !endsBackslash r.body
  | _ :: rs => noFinalBackslash rs

/-- the white space of the text is C white space (the cleaner uses Python's `str.isspace`,
    which also accepts U+001C–U+001F, U+0085, U+00A0 and further Unicode spaces) -/
def plainChar (c : Char) : Bool :=
  cWhite c || !((28 ≤ c.toNat && c.toNat ≤ 31) || c.toNat == 133 || c.toNat == 160 || c.toNat == 5760 ||
    (8192 ≤ c.toNat && c.toNat ≤ 8202) || c.toNat == 8232 || c.toNat == 8233 || c.toNat == 8239 ||
    c.toNat == 8287 || c.toNat == 12288)

def scanLines (ls : List RawLine) : Option Scan := decomment {} (splice 1 ls)

/-- well-formed: valid pp-token sequence with comments, ends outside comments and literals,
    no file-final backslash, plain white space only -/
def wfLines (ls : List RawLine) : Bool :=
  noFinalBackslash ls && ls.all (fun r => r.body.all plainChar) &&
  match scanLines ls with
  | some s => s.st.mode == .code
  | none => false

def Surv.nonWhiteOn (n : Nat) : Surv → Bool
  | .ch c m _ => m == n && !cWhite c
  | .nl _ => false

def Surv.litWhiteOn (n : Nat) : Surv → Bool
  | .ch c m lit => m == n && lit && cWhite c
  | .nl _ => false

/-- line numbers `1..cnt` on which a non-white character survives -/
def linesOf (cnt : Nat) (out : List Surv) : List Nat :=
  (List.range' 1 cnt).filter fun n => out.any (Surv.nonWhiteOn n)

/-- F-C05-2: some physical line holds white space inside a literal and nothing else survives on it -/
def k2Of (cnt : Nat) (out : List Surv) : Bool :=
  (List.range' 1 cnt).any fun n => out.any (Surv.litWhiteOn n) && !out.any (Surv.nonWhiteOn n)

/-- split the survivors at the surviving newlines -/
def segments : List Surv → List Surv → List (List Surv)
  | [], cur => if cur.isEmpty then [] else [cur.reverse]
  | .nl _ :: rest, cur => cur.reverse :: segments rest []
  | s :: rest, cur => segments rest (s :: cur)

def Surv.isWhite : Surv → Bool
  | .ch c _ _ => cWhite c
  | .nl _ => true

/-- first surviving non-white character of a logical line -/
def firstNonWhite (seg : List Surv) : Option Char :=
  match seg.find? (fun s => !s.isWhite) with
  | some (.ch c _ _) => some c
  | _ => none

/-- the first surviving non-white character of the logical line is `#` -/
def startsHash (seg : List Surv) : Bool := firstNonWhite seg == some '#'

/-- the logical line starts with the two characters `##` (adjacent after splicing; a comment between
    them would survive as a space): its first token is the operator `##`, not `#` -/
def startsHashHash (seg : List Surv) : Bool :=
  match seg.dropWhile Surv.isWhite with
  | .ch '#' _ _ :: .ch '#' _ _ :: _ => true
  | _ => false

/-- "a logical line whose first token is `#` is a directive": the only other preprocessing token
    that starts with `#` is `##` -/
def isDirective (seg : List Surv) : Bool := startsHash seg && !startsHashHash seg

/-- logical lines holding code: (is a directive, counted physical lines) -/
def logicalOf (cnt : Nat) (out : List Surv) : List (Bool × List Nat) :=
  ((segments out []).map fun seg => (isDirective seg, linesOf cnt seg)).filter fun p => !p.2.isEmpty

/-- expected node list: every directive line is a node of its own; maximal runs of other
    logical lines form one code node -/
def nodesOf : Option (List Nat) → List (Bool × List Nat) → List (Bool × List Nat)
  | code, [] => match code with
    | some c => [(false, c)]
    | none => []
  | code, (d, ls) :: rest =>
    if d then (match code with | some c => [(false, c)] | none => []) ++ (true, ls) :: nodesOf none rest
    else nodesOf (some (code.getD [] ++ ls)) rest

structure Result where
  wf : Bool
  k1 : Bool
  k2 : Bool
  counted : List Nat
  logical : List (Bool × List Nat)
  nodes : List (Bool × List Nat)
deriving Repr

def resultLines (ls : List RawLine) : Result :=
  match scanLines ls with
  | none => ⟨false, false, false, [], [], []⟩
  | some s =>
    let cnt := ls.length
    let lg := logicalOf cnt s.out
    ⟨wfLines ls, s.k1, k2Of cnt s.out,
      linesOf cnt s.out, lg, nodesOf none lg⟩

def result (t : List Char) : Result := resultLines (rawLines t)

def wf (t : List Char) : Bool := wfLines (rawLines t)
def k1 (t : List Char) : Bool := (result t).k1
def k2 (t : List Char) : Bool := (result t).k2
def countedLines (t : List Char) : List Nat := (result t).counted
def logical (t : List Char) : List (Bool × List Nat) := (result t).logical
def nodes (t : List Char) : List (Bool × List Nat) := (result t).nodes

end CbiVerif.CLexRef
