import CbiVerif.Alias
import Batteries.Data.List.Perm
namespace CbiVerif.Alias

theorem get_mem_keys (e : Env) (a : String) (c : Comp) (h : e.get a = some c) : a ∈ e.map (·.1) := by
  unfold Env.get at h
  cases hf : e.find? (·.1 == a) with
  | none => simp [hf] at h
  | some p =>
    have := List.find?_some hf
    have hm := List.mem_of_find?_eq_some hf
    simp at this
    exact List.mem_map.mpr ⟨p, hm, this⟩

/-- with `fuel + chain.length > number of keys`, a duplicate-free chain of known names never exhausts the fuel -/
theorem no_spurious_loop (e : Env) : ∀ fuel chain c,
    chain.Nodup → (∀ x ∈ chain, x ∈ e.map (·.1)) → e.length < fuel + chain.length →
    (walkWhy e fuel chain c).2 = false := by
  intro fuel
  induction fuel with
  | zero =>
    intro chain c hnd hsub hlen
    exfalso
    have := (List.subperm_of_subset hnd hsub).length_le
    simp at this hlen
    omega
  | succ fuel ih =>
    intro chain c hnd hsub hlen
    simp only [walkWhy]
    cases ha : c.aliasOf with
    | none => rfl
    | some a =>
      simp only
      split
      · rfl
      · rename_i hc
        cases hg : e.get a with
        | none => rfl
        | some c2 =>
          simp only
          apply ih
          · rw [List.nodup_append]
            refine ⟨hnd, by simp, ?_⟩
            intro x hx y hy
            simp at hy; subst hy
            intro heq; subst heq
            simp at hc
            exact hc hx
          · intro x hx
            rcases List.mem_append.mp hx with h | h
            · exact hsub x h
            · simp at h; subst h; exact get_mem_keys e _ c2 hg
          · simp; omega

theorem resolve_no_spurious_loop (e : Env) (name : String) (c : Comp) (h : e.get name = some c) :
    (walkWhy e (e.length + 1) [name] c).2 = false :=
  no_spurious_loop e _ _ c (by simp) (by intro x hx; simp at hx; subst hx; exact get_mem_keys e _ c h) (by simp; omega)

end CbiVerif.Alias
