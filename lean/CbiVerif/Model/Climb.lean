import CbiVerif.PP.Lexer
/-! Generic precedence climbing (`ExpressionEvaluator.expression/primary`) over real tokens, `Except`
    errors, an abstract leaf parser (`term`), abstract value operations and an abstract operator table.
    Defined ONCE: `Model/Eval.lean` instantiates it with the code's operations and the GENERATED tables
    (that instance is what the driver executes), `Lemmas/ClimbProof.lean` proves it correct for every
    table satisfying `TableOK`.  Core Lean only.

    Differences to the design prototype `Climb2.lean`: the unary precedence is read from the table
    (`unPrec`, the code calls `expression(prec)` with the table's value), the third operand of `?:` is
    parsed with the minimum precedence the code derives from the table's associativity, and a leaf only
    has to be accepted in contexts that do not continue with `(` (an identifier followed by `(` is a
    residual *call* in the code, which never happens inside a parse tree of the C grammar). -/
namespace CbiVerif.Climb
open CbiVerif.PP

inductive EErr | parse | other (tag : Nat) deriving DecidableEq, Repr

structure EvOps (V : Type) where
  un : String → V → V
  bin : String → V → V → V
  tern : V → V → V → V
  leaf : List Tok → Except EErr (V × List Tok)       -- term()
  unPrec : String → Option Nat                       -- UnaryOperators[tok].prec
  binInfo : String → Option (Nat × Bool)

abbrev Res (V : Type) := Except EErr (V × List Tok)

def leadPrec {V} (O : EvOps V) : List Tok → Nat
  | t :: _ => match O.binInfo t.text with | some (p, _) => p | none => 0
  | [] => 0

def isOp (t : Tok) (s : String) : Bool := t.kind == .op && t.text == s
def isPunct (t : Tok) (s : String) : Bool := t.kind == .punct && t.text == s

/-- out of fuel -/
def oof {V} : Res V := .error (.other 0)

mutual
def expr {V} (O : EvOps V) : Nat → Nat → List Tok → Res V
  | 0, _, _ => oof
  | f+1, m, ts =>
    match primary O f ts with
    | .error e => .error e
    | .ok (v, rest) => loop O f m v rest
def loop {V} (O : EvOps V) : Nat → Nat → V → List Tok → Res V
  | 0, _, _, _ => oof
  | f+1, m, v, ts =>
    match ts with
    | t :: rest =>
      match O.binInfo t.text with
      | some (p, ra) =>
        if p ≥ m then
          if t.kind != .op then .error .parse
          else if t.text == "?" then
            match expr O f 0 rest with
            | .ok (tv, c :: rest2) =>
              if isOp c ":" then
                match expr O f (if ra then p else p + 1) rest2 with
                | .ok (ev, rest3) => loop O f m (O.tern v tv ev) rest3
                | .error e => .error e
              else .error .parse
            | .ok (_, []) => .error .parse
            | .error e => .error e
          else
            match expr O f (if ra then p else p + 1) rest with
            | .ok (r, rest2) => loop O f m (O.bin t.text v r) rest2
            | .error e => .error e
        else .ok (v, ts)
      | none => .ok (v, ts)
    | [] => .ok (v, ts)
def primary {V} (O : EvOps V) : Nat → List Tok → Res V
  | 0, _ => oof
  | f+1, ts =>
    match ts with
    | t :: rest =>
      if t.kind == .op then
        match O.unPrec t.text with
        | some q =>
          match expr O f q rest with
          | .ok (v, rest2) => .ok (O.un t.text v, rest2)
          | .error e => .error e
        | none => .error .parse
      else if isPunct t "(" then
        match expr O f 0 rest with
        | .ok (v, c :: rest2) => if isPunct c ")" then .ok (v, rest2) else .error .parse
        | .ok (_, []) => .error .parse
        | .error e => .error e
      else O.leaf ts
    | [] => .error .parse
end

/-! parse trees of the table-induced grammar -/
inductive Ast (V : Type)
  | leaf (ts : List Tok) (v : V)
  | paren (a : Ast V)
  | un (s : String) (a : Ast V)
  | bin (s : String) (p : Nat) (l r : Ast V)
  | tern (c t e : Ast V)

variable {V : Type}

def Ast.level : Ast V → Nat
  | .leaf _ _ => 13 | .paren _ => 13 | .un _ _ => 12 | .bin _ p _ _ => p | .tern _ _ _ => 1
def Ast.rbound : Ast V → Nat
  | .tern _ _ _ => 0
  | a => a.level

def opTok (s : String) : Tok := ⟨.op, s, false, true⟩
def lpTok : Tok := ⟨.punct, "(", false, true⟩
def rpTok : Tok := ⟨.punct, ")", false, true⟩

/-- tokens may carry any `prev_white` / `expandable` flags: rendering is up to those flags -/
def Ast.render : Ast V → List Tok
  | .leaf ts _ => ts
  | .paren a => lpTok :: (a.render ++ [rpTok])
  | .un s a => opTok s :: a.render
  | .bin s _ l r => l.render ++ opTok s :: r.render
  | .tern c t e => c.render ++ opTok "?" :: (t.render ++ opTok ":" :: e.render)

def Ast.eval (O : EvOps V) : Ast V → V
  | .leaf _ v => v
  | .paren a => a.eval O
  | .un s a => O.un s (a.eval O)
  | .bin s _ l r => O.bin s (l.eval O) (r.eval O)
  | .tern c t e => O.tern (c.eval O) (t.eval O) (e.eval O)

def Ast.size : Ast V → Nat
  | .leaf _ _ => 1
  | .paren a => a.size + 1
  | .un _ a => a.size + 1
  | .bin _ _ l r => l.size + r.size + 1
  | .tern c t e => c.size + t.size + e.size + 1

/-- the table is sane: precedences in 1..11, ':' and ')' are not binary operators, '?' is (1, right) -/
structure TableOK (O : EvOps V) : Prop where
  range : ∀ s p ra, O.binInfo s = some (p, ra) → 1 ≤ p ∧ p ≤ 11
  colon : O.binInfo ":" = none
  rparen : O.binInfo ")" = none
  quest : O.binInfo "?" = some (1, true)

/-- the continuation does not start with `(` -/
def noLP : List Tok → Prop
  | t :: _ => isPunct t "(" = false
  | [] => True

def Ast.WF (O : EvOps V) : Ast V → Prop
  | .leaf ts v => (∃ t r, ts = t :: r ∧ t.kind ≠ .op ∧ isPunct t "(" = false) ∧
      ∀ rest, noLP rest → O.leaf (ts ++ rest) = .ok (v, rest)
  | .paren a => a.WF O
  | .un s a => O.unPrec s = some 12 ∧ a.WF O ∧ 12 ≤ a.level
  | .bin s p l r => O.binInfo s = some (p, false) ∧ s ≠ "?" ∧ l.WF O ∧ r.WF O ∧ p ≤ l.level ∧ p + 1 ≤ r.level ∧ p ≤ l.rbound
  | .tern c t e => c.WF O ∧ t.WF O ∧ e.WF O ∧ 2 ≤ c.level ∧ 1 ≤ c.rbound

end CbiVerif.Climb
