/-! # C03 specification: macro replacement as ISO C 6.10.3 demands it (Prosser's hide-set algorithm)

Written from the C standard (6.10.3 – 6.10.3.5) and Prosser's 1986 note that X3J11 used to define the
"blue paint" semantics, *not* from CBI's code; it shares nothing with `CbiVerif.PP` / `CbiVerif.MX` (own
token type, own pp-token lexer, own `#define` parser).  Fuel-indexed, core Lean only.

* every token carries a hide set `hs`;
* `expand`: a token that is not a macro name, or whose name is in its hide set, is output; an object-like
  macro is replaced by `subst body` with hide set `hs ∪ {name}` and the result is rescanned **together with
  the rest of the source**; a function-like macro name followed by `(` collects its arguments (from the
  rest of the stream, so a call may be completed by following source tokens), and is replaced likewise with
  hide set `(hs ∩ hs(rparen)) ∪ {name}`;
* `subst`: a parameter adjacent to `#`/`##` is substituted unexpanded, any other parameter by its complete
  macro expansion (`expand arg` in isolation); `#p` stringizes; `a ## b` pastes with placemarker semantics
  for empty operands; the pasted spelling must lex as exactly one pp-token, else the behaviour is undefined;
* `defined X` / `defined ( X )` in the scanned text (a `#if` operand) yields `1`/`0` and `X` is not expanded.

`Unspec` results mean "outside the property's well-formedness condition" (a conforming preprocessor
diagnoses it or the standard leaves it undefined); the harness drops those inputs. -/
namespace CbiVerif.Spec.Prosser

inductive K | id | num | str | chr | punct
deriving DecidableEq, Repr, Inhabited

structure T where
  kind : K
  text : String        -- full spelling (string and character literals include their quotes)
  ws : Bool            -- preceded by white space
  hs : List String     -- hide set
deriving Repr, Inhabited, DecidableEq

inductive Unspec
  | lex (what : String)          -- text is not a sequence of pp-tokens we model
  | badDefine (what : String)    -- constraint violation in a definition (6.10.3 p. 2-6, 6.10.3.2 p.1, 6.10.3.3 p.1)
  | arity                        -- wrong number of arguments (6.10.3 p.4)
  | unterminated                 -- call without closing parenthesis (6.10.3 p.4)
  | badPaste (what : String)     -- `##` result is not one pp-token (6.10.3.3 p.3: undefined)
  | exoticPaste (what : String)  -- `##` gives a valid C punctuator that cannot occur in a `#if`/`#include` operand (`++`, `->`, `+=`, …)
  | definedByExpansion           -- `defined` produced by macro replacement (6.10.1 p.4: undefined)
  | badDefined                   -- `defined` not followed by identifier / ( identifier )
  | badStringize                 -- `#` result is not a valid string literal (6.10.3.2 p.2: undefined)
  | fuel
deriving Repr, DecidableEq

/-! ## pp-token lexer (6.4) -/
def isIdStart (c : Char) : Bool := c.isAlpha || c == '_'
def isIdChar (c : Char) : Bool := c.isAlphanum || c == '_'
def isWs (c : Char) : Bool := c == ' ' || c == '\t' || c == '\n' || c == '\r'

/-- punctuators, longest first -/
def puncts3 : List String := ["...", "<<=", ">>="]
def puncts2 : List String := ["##", "<<", ">>", "<=", ">=", "==", "!=", "&&", "||", "->", "++", "--", "+=", "-=", "*=", "/=", "%=", "&=", "|=", "^="]
def puncts1 : List String := ["-", "+", "*", "/", "%", "<", ">", "=", "!", "&", "|", "^", "~", "?", ":", "#", "(", ")", "{", "}", "[", "]", ",", ".", ";"]
/-- punctuators that can occur in the operand of `#if` / `#include` or in a macro definition -/
def plainPuncts : List String := ["...", "##", "<<", ">>", "<=", ">=", "==", "!=", "&&", "||"] ++ puncts1

/-- pp-number: `.`? digit ( digit | identifier-nondigit | `e±` | `p±` | `.` )* -/
def lexNumber (s : List Char) : Option (List Char × List Char) :=
  let rec go : Nat → List Char → List Char → List Char × List Char
    | 0, acc, s => (acc, s)
    | _ + 1, acc, [] => (acc, [])
    | f + 1, acc, c :: r =>
      match r with
      | c2 :: r2 =>
        if (c == 'e' || c == 'E' || c == 'p' || c == 'P') && (c2 == '+' || c2 == '-') then go f (acc ++ [c, c2]) r2
        else if isIdChar c || c == '.' then go f (acc ++ [c]) r
        else (acc, c :: r)
      | [] => if isIdChar c || c == '.' then go f (acc ++ [c]) r else (acc, c :: r)
  match s with
  | '.' :: d :: r => if d.isDigit then some (go (r.length + 1) ['.', d] r) else none
  | d :: r => if d.isDigit then some (go (r.length + 1) [d] r) else none
  | [] => none

/-- string / character literal delimited by `q`, with backslash escapes -/
def lexQuoted (q : Char) (s : List Char) : Option (List Char × List Char) :=
  let rec go : Nat → List Char → List Char → Option (List Char × List Char)
    | 0, _, _ => none
    | _ + 1, _, [] => none
    | f + 1, acc, c :: r =>
      if c == q then some (acc ++ [c], r)
      else if c == '\\' then
        match r with
        | c2 :: r2 => go f (acc ++ [c, c2]) r2
        | [] => none
      else if c == '\n' then none
      else go f (acc ++ [c]) r
  match s with
  | c :: r => if c == q then go (r.length + 1) [q] r else none
  | [] => none

def lexOne (s : List Char) (ws : Bool) : Option (T × List Char) :=
  match lexNumber s with
  | some (t, r) => some (⟨.num, String.ofList t, ws, []⟩, r)
  | none =>
  match s with
  | [] => none
  | c :: _ =>
    if isIdStart c then
      let w := s.takeWhile isIdChar
      some (⟨.id, String.ofList w, ws, []⟩, s.drop w.length)
    else if c == '"' then (lexQuoted '"' s).map fun (t, r) => (⟨.str, String.ofList t, ws, []⟩, r)
    else if c == '\'' then
      match lexQuoted '\'' s with
      | some (t, r) => if t.length > 2 then some (⟨.chr, String.ofList t, ws, []⟩, r) else none
      | none => none
    else
      match (puncts3 ++ puncts2 ++ puncts1).find? (fun p => p.toList.isPrefixOf s) with
      | some p => some (⟨.punct, p, ws, []⟩, s.drop p.length)
      | none => none

def lex (input : String) : Except Unspec (List T) :=
  let rec go : Nat → List Char → List T → Except Unspec (List T)
    | 0, _, acc => .ok acc
    | f + 1, s, acc =>
      let w := s.takeWhile isWs
      let s1 := s.drop w.length
      match s1 with
      | [] => .ok acc
      | _ =>
        match lexOne s1 (!w.isEmpty) with
        | some (t, r) => go f r (acc ++ [t])
        | none => .error (.lex (String.ofList (s1.take 8)))
  go (input.length + 1) input.toList []

/-! ## definitions -/
structure Macro where
  name : String
  params : Option (List String)     -- `none`: object-like
  variadic : Bool
  body : List T
deriving Repr, Inhabited

abbrev Macros := List Macro
def Macros.get (ms : Macros) (n : String) : Option Macro := ms.find? (·.name == n)

def isP (t : T) (s : String) : Bool := t.kind == .punct && t.text == s

/-- parameter list after `(`: returns (params, variadic, rest after `)`) -/
def parseParams : Nat → List T → List String → Except Unspec (List String × Bool × List T)
  | 0, _, _ => .error (.badDefine "params")
  | f + 1, ts, acc =>
    match ts with
    | t :: r =>
      if isP t ")" then (if acc.isEmpty then .ok ([], false, r) else .error (.badDefine "params"))
      else if isP t "..." then
        match r with
        | c :: r2 => if isP c ")" then .ok (acc ++ ["__VA_ARGS__"], true, r2) else .error (.badDefine "params")
        | [] => .error (.badDefine "params")
      else if t.kind == .id then
        if t.text == "__VA_ARGS__" || acc.contains t.text then .error (.badDefine "params")
        else match r with
          | c :: r2 =>
            if isP c ")" then .ok (acc ++ [t.text], false, r2)
            else if isP c "," then
              (match r2 with
               | n :: _ => if isP n ")" then .error (.badDefine "params") else parseParams f r2 (acc ++ [t.text])
               | [] => .error (.badDefine "params"))
            else if isP c "..." then          -- GNU named variadic `args...`
              match r2 with
              | c2 :: r3 => if isP c2 ")" then .ok (acc ++ [t.text], true, r3) else .error (.badDefine "params")
              | [] => .error (.badDefine "params")
            else .error (.badDefine "params")
          | [] => .error (.badDefine "params")
      else .error (.badDefine "params")
    | [] => .error (.badDefine "params")

/-- constraints on a replacement list -/
def checkBody (params : Option (List String)) (variadic : Bool) (body : List T) : Except Unspec Unit :=
  let rec hashOk : List T → Bool
    | [] => true
    | t :: r =>
      if isP t "#" then
        match r with
        | p :: r2 => p.kind == .id && (params.getD []).contains p.text && hashOk r2
        | [] => false
      else hashOk r
  if (body.head?.map (isP · "##")).getD false || (body.getLast?.map (isP · "##")).getD false then
    .error (.badDefine "## at either end")
  else if params.isSome && !hashOk body then .error (.badDefine "# not followed by a parameter")
  else if !(variadic && (params.getD []).contains "__VA_ARGS__") && body.any (fun t => t.kind == .id && t.text == "__VA_ARGS__") then
    .error (.badDefine "__VA_ARGS__ outside a variadic macro")
  else .ok ()

/-- text after `#define ` -/
def parseDefine (line : String) : Except Unspec Macro := do
  let ts ← lex line
  match ts with
  | n :: r =>
    if n.kind != .id then throw (.badDefine "name")
    if n.text == "defined" then throw (.badDefine "defined cannot be a macro name")
    match r with
    | p :: r2 =>
      if isP p "(" && !p.ws then
        let (params, variadic, body) ← parseParams (r2.length + 1) r2 []
        checkBody (some params) variadic body
        pure ⟨n.text, some params, variadic, body⟩
      else
        checkBody none false r
        pure ⟨n.text, none, false, r⟩
    | [] => pure ⟨n.text, none, false, []⟩
  | [] => throw (.badDefine "name")

/-- `-D` argument ↦ the text of the equivalent `#define` (the first `=` becomes a blank; no `=`: value `1`) -/
def cmdlineToDefine (s : String) : String :=
  let cs := s.toList
  let pre := cs.takeWhile (· != '=')
  if pre.length == cs.length then s ++ " 1"
  else String.ofList (pre ++ [' '] ++ cs.drop (pre.length + 1))

/-! ## stringizing and pasting -/
def escapeLit (s : String) : String :=
  String.ofList (s.toList.flatMap fun c => if c == '\\' || c == '"' then ['\\', c] else [c])

/-- 6.10.3.2: spelling of the argument, one blank where white space separated tokens, none at the ends -/
def stringize (arg : List T) : Except Unspec T :=
  let rec go : List T → Bool → String → String
    | [], _, acc => acc
    | t :: r, first, acc =>
      go r false (acc ++ (if !first && t.ws then " " else "") ++ (if t.kind == .str || t.kind == .chr then escapeLit t.text else t.text))
  let s := "\"" ++ go arg true "" ++ "\""
  match lexOne s.toList false with
  | some (t, []) => if t.kind == .str then .ok t else .error .badStringize
  | _ => .error .badStringize

def inter (a b : List String) : List String := a.filter b.contains
def union (a b : List String) : List String := a ++ b.filter (fun x => !a.contains x)

/-- `ls ## rs` on non-empty operands -/
def glue (ls rs : List T) : Except Unspec (List T) :=
  match ls.getLast?, rs with
  | some l, r :: rrest =>
    let text := l.text ++ r.text
    match lexOne text.toList l.ws with
    | some (t, []) =>
      if t.kind == .punct && !plainPuncts.contains t.text then .error (.exoticPaste text)
      else .ok (ls.dropLast ++ [{ t with hs := inter l.hs r.hs }] ++ rrest)
    | _ => .error (.badPaste text)
  | _, _ => .ok (ls ++ rs)

def setWs (ts : List T) (ws : Bool) : List T :=
  match ts with | t :: r => { t with ws := ws } :: r | [] => []

/-! ## substitution (6.10.3.1 – 6.10.3.3) -/
def pidx (params : Option (List String)) (t : T) : Option Nat :=
  match params with
  | some ps => if t.kind == .id then ps.idxOf? t.text else none
  | none => none

/-- `ex` = complete macro expansion of an argument; `os` = output so far; `pm` = `os` ends in a placemarker -/
def subst (ex : List T → Except Unspec (List T)) (params : Option (List String)) (args : List (List T)) :
    Nat → List T → List T → Bool → Except Unspec (List T)
  | 0, _, os, _ => .ok os
  | _ + 1, [], os, _ => .ok os
  | fuel + 1, t :: rest, os, pm =>
    let argOf (i : Nat) : List T := args.getD i []
    -- `# param`
    match (if params.isSome && isP t "#" then (match rest with | p :: r2 => (pidx params p).map (·, r2) | [] => none) else none) with
    | some (i, r2) =>
      match stringize (argOf i) with
      | .ok s => subst ex params args fuel r2 (os ++ [{ s with ws := t.ws }]) false
      | .error e => .error e
    | none =>
    if isP t "##" then
      match rest with
      | [] => .ok os      -- excluded by checkBody
      | nxt :: r2 =>
        -- right operand: `# param`, parameter (unexpanded), or the token itself
        let rhsE : Except Unspec (List T × List T) :=
          match (if params.isSome && isP nxt "#" then (match r2 with | p :: r3 => (pidx params p).map (·, r3) | [] => none) else none) with
          | some (i, r3) => (stringize (argOf i)).map fun s => ([s], r3)
          | none =>
            match pidx params nxt with
            | some i => .ok (argOf i, r2)
            | none => .ok ([nxt], r2)
        match rhsE with
        | .error e => .error e
        | .ok (rhs, r3) =>
          if pm || os.isEmpty then
            -- placemarker ## rhs = rhs (placemarker again if rhs is empty)
            subst ex params args fuel r3 (os ++ rhs) (rhs.isEmpty)
          else if rhs.isEmpty then subst ex params args fuel r3 os false       -- lhs ## placemarker = lhs
          else
            match glue os rhs with
            | .ok os' => subst ex params args fuel r3 os' false
            | .error e => .error e
    else
      match pidx params t with
      | some i =>
        let a := argOf i
        if (rest.head?.map (isP · "##")).getD false then
          -- left operand of `##`: not expanded; empty ⇒ placemarker
          if a.isEmpty then subst ex params args fuel rest os true
          else subst ex params args fuel rest (os ++ setWs a t.ws) false
        else
          match ex a with
          | .ok e => subst ex params args fuel rest (os ++ setWs e t.ws) false
          | .error e => .error e
      | none => subst ex params args fuel rest (os ++ [t]) false

/-! ## argument collection (6.10.3 p.11) -/
structure Call where
  args : List (List T)
  commas : List T
  rparen : T
  rest : List T

/-- `ts` starts just after the opening parenthesis -/
def collect : List T → Nat → List (List T) → List T → List T → Except Unspec Call
  | [], _, _, _, _ => .error .unterminated
  | x :: r, depth, args, cur, commas =>
    if isP x "(" then collect r (depth + 1) args (cur ++ [x]) commas
    else if isP x ")" then
      if depth == 0 then .ok ⟨args ++ [cur], commas, x, r⟩ else collect r (depth - 1) args (cur ++ [x]) commas
    else if isP x "," && depth == 0 then collect r depth (args ++ [cur]) [] (commas ++ [x])
    else collect r depth args (cur ++ [x]) commas

/-- match collected arguments with the parameter list -/
def bindArgs (m : Macro) (c : Call) : Except Unspec (List (List T)) :=
  let np := (m.params.getD []).length
  if m.variadic then
    if c.args.length < np - 1 then .error .arity
    else
      let fixed := c.args.take (np - 1)
      let var := c.args.drop (np - 1)
      let seps := c.commas.drop (np - 1)
      let rec join : List (List T) → List T → List T
        | [], _ => []
        | [a], _ => a
        | a :: b :: r, s :: ss => a ++ [s] ++ join (b :: r) ss
        | a :: b :: r, [] => a ++ join (b :: r) []
      .ok (fixed ++ [join var seps])
  else if np == 0 && c.args.length == 1 && (c.args.headD []).isEmpty then .ok []
  else if c.args.length != np then .error .arity
  else .ok c.args

/-! ## the expansion loop -/
def isDefinedTok (t : T) : Bool := t.kind == .id && t.text == "defined"

/-- `top`: scanning the operand of `#if` itself (where `defined` is an operator) rather than an argument -/
def expand (ms : Macros) : Nat → Bool → List T → List T → Except Unspec (List T)
  | 0, _, _, _ => .error .fuel
  | _ + 1, _, [], out => .ok out
  | f + 1, top, t :: ts, out =>
    if isDefinedTok t then
      if !top || !t.hs.isEmpty then .error .definedByExpansion
      else
        match ts with
        | x :: r =>
          if x.kind == .id then expand ms f top r (out ++ [⟨.num, if (ms.get x.text).isSome then "1" else "0", t.ws, []⟩])
          else if isP x "(" then
            match r with
            | y :: z :: r2 =>
              if y.kind == .id && isP z ")" then
                expand ms f top r2 (out ++ [⟨.num, if (ms.get y.text).isSome then "1" else "0", t.ws, []⟩])
              else .error .badDefined
            | _ => .error .badDefined
          else .error .badDefined
        | [] => .error .badDefined
    else if t.kind != .id || t.hs.contains t.text then expand ms f top ts (out ++ [t])
    else
      match ms.get t.text with
      | none => expand ms f top ts (out ++ [t])
      | some m =>
        match m.params with
        | none =>
          match subst (fun _ => .ok []) none [] (m.body.length + 1) m.body [] false with
          | .error e => .error e
          | .ok rep =>
            let hs := union t.hs [t.text]
            expand ms f top (setWs (rep.map fun x => { x with hs := union x.hs hs }) t.ws ++ ts) out
        | some _ =>
          match ts with
          | p :: r =>
            if !isP p "(" then expand ms f top ts (out ++ [t])
            else
              match collect r 0 [] [] [] with
              | .error e => .error e
              | .ok c =>
                if c.args.any (·.any isDefinedTok) then .error .definedByExpansion
                else
                match bindArgs m c with
                | .error e => .error e
                | .ok args =>
                  match subst (fun a => expand ms f false a []) m.params args (m.body.length + 1) m.body [] false with
                  | .error e => .error e
                  | .ok rep =>
                    let hs := union (inter t.hs c.rparen.hs) [t.text]
                    expand ms f top (setWs (rep.map fun x => { x with hs := union x.hs hs }) t.ws ++ c.rest) out
          | [] => expand ms f top ts (out ++ [t])

def buildTable : List String → Macros → Except Unspec Macros
  | [], acc => .ok acc
  | d :: r, acc =>
    match parseDefine d with
    | .error e => .error e
    | .ok m => if (acc.get m.name).isSome then .error (.badDefine "redefinition") else buildTable r (acc ++ [m])

def defaultFuel : Nat := 200000

/-- **the specification**: definitions (texts after `#define `) and the text to expand ↦ pp-tokens -/
def prosser (defs : List String) (text : String) : Except Unspec (List T) := do
  let ms ← buildTable defs []
  let ts ← lex text
  expand ms defaultFuel true ts []

/-- the same on an already built table and lexed text -/
def prosserToks (ms : Macros) (ts : List T) : Except Unspec (List T) := expand ms defaultFuel true ts []

end CbiVerif.Spec.Prosser
