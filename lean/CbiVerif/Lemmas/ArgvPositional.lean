import CbiVerif.Lemmas.ArgvSweep
/-! C11 helper: positional arguments inserted outside a flag/value pair do not change what the left-to-right
consume loop does to the four value lists (any table). -/
namespace CbiVerif.ArgvPositional
open CbiVerif.Argparse CbiVerif.ArgparseFull

theorem run_append (t : List Opt) : ∀ (xs ys : List Arg) (p : Pend) (c : Cfg),
    run t p c (xs ++ ys) =
      match stateAfter t p c xs with
      | .ok r => run t r.1 r.2 ys
      | .error e => .error e
  | [], ys, p, c => rfl
  | a :: xs, ys, p, c => by
    simp only [List.cons_append, run, stateAfter]
    cases hs : step t p c a with
    | error e => rfl
    | ok r => obtain ⟨p', c'⟩ := r; exact run_append t xs ys p' c'

theorem plain_view (t : List Opt) (a : Arg) (h : plainPositional a = true) : viewOf t a = .positional := by
  cases a with
  | nil => simp [viewOf, classify, viewOfCls]
  | cons c tl =>
    have hc : c ≠ '-' := by simpa [plainPositional] using h
    have hne : ¬ (c :: tl = ['-', '-']) := by
      intro e; injection e with e1 _; exact hc e1
    unfold viewOf classify
    simp [hne, hc, viewOfCls]

theorem run_optIgn (t : List Opt) (c : Cfg) (l : List Arg) : run t .optIgn c l = run t .idle c l := by
  cases l with
  | nil => rfl
  | cons a r =>
    simp only [run, step]
    by_cases h : viewOf t a = .positional
    · simp [h, idleStep]
    · simp [h]

/-- plain positionals seen from a state that is not waiting for a required argument: the lists stay, and what
follows is read as from the idle state -/
theorem run_plain (t : List Opt) : ∀ (ps ys : List Arg) (p : Pend) (c : Cfg),
    (∀ x ∈ ps, plainPositional x = true) → (p = .idle ∨ p = .optIgn) →
    run t p c (ps ++ ys) = run t .idle c ys
  | [], ys, p, c, _, hp => by
    rcases hp with rfl | rfl
    · rfl
    · exact run_optIgn t c ys
  | a :: ps, ys, p, c, h, hp => by
    have hv := plain_view t a (h a List.mem_cons_self)
    have hrest : ∀ x ∈ ps, plainPositional x = true := fun x hx => h x (List.mem_cons_of_mem _ hx)
    rcases hp with rfl | rfl
    · simp only [List.cons_append, run, step, hv, idleStep]
      exact run_plain t ps ys .idle c hrest (Or.inl rfl)
    · simp only [List.cons_append, run, step, hv, if_true]
      exact run_plain t ps ys .idle c hrest (Or.inl rfl)

theorem ambiguous_plain (t : List Opt) : ∀ (ps ys : List Arg), (∀ x ∈ ps, plainPositional x = true) →
    ambiguousUpfront t (ps ++ ys) = ambiguousUpfront t ys
  | [], _, _ => rfl
  | a :: ps, ys, h => by
    have hv := plain_view t a (h a List.mem_cons_self)
    have hne : ¬ (a = ['-', '-']) := by
      intro e; subst e; simp [plainPositional] at h
    simp only [List.cons_append, ambiguousUpfront, if_neg hne, hv]
    have : (View.positional == View.ambiguous) = false := rfl
    rw [this, Bool.false_or]
    exact ambiguous_plain t ps ys (fun x hx => h x (List.mem_cons_of_mem _ hx))

theorem ambiguous_insert (t : List Opt) (ps ys : List Arg) (h : ∀ x ∈ ps, plainPositional x = true) :
    ∀ xs : List Arg, ambiguousUpfront t (xs ++ (ps ++ ys)) = ambiguousUpfront t (xs ++ ys)
  | [] => ambiguous_plain t ps ys h
  | a :: xs => by
    simp only [List.cons_append, ambiguousUpfront]
    rw [ambiguous_insert t ps ys h xs]

/-- after `--` nothing matters -/
theorem run_afterDD' (t : List Opt) (c : Cfg) (l : List Arg) : run t .afterDD c l = .ok c :=
  ArgvSweep.run_afterDD t l c

/-- **positional arguments outside a flag/value pair never disturb the value lists** (left-to-right model, any
table, failures included) -/
theorem parseKnown_insert (t : List Opt) (xs ps ys : List Arg) (h : ∀ x ∈ ps, plainPositional x = true)
    (hw : ∀ d c, stateAfter t .idle {} xs ≠ .ok (.need d, c) ∧ stateAfter t .idle {} xs ≠ .ok (.needIgn, c)) :
    parseKnown t (xs ++ ps ++ ys) = parseKnown t (xs ++ ys) := by
  unfold parseKnown
  rw [List.append_assoc, ambiguous_insert t ps ys h xs, run_append t xs (ps ++ ys), run_append t xs ys]
  cases hs : stateAfter t .idle {} xs with
  | error e => rfl
  | ok r =>
    obtain ⟨p, c⟩ := r
    have : run t p c (ps ++ ys) = run t p c ys := by
      cases p with
      | idle => exact run_plain t ps ys .idle c h (Or.inl rfl)
      | optIgn => rw [run_plain t ps ys .optIgn c h (Or.inr rfl), run_optIgn]
      | afterDD => rw [run_afterDD', run_afterDD']
      | need d => exact absurd hs (hw d c).1
      | needIgn => exact absurd hs (hw (.append .defines) c).2
    simp only [this]

end CbiVerif.ArgvPositional
