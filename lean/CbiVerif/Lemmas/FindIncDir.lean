import CbiVerif.Lemmas.FindInc
/-! C18: unknown-directive warnings of an analysis = one batch per parsed file, each file parsed once. -/
namespace CbiVerif.Inc
open CbiVerif.PP (PNode Tok Table Entry Err)
open CbiVerif.Cond CbiVerif.MF CbiVerif.IncludeSearch

/-- the unknown-directive warnings parsing `f` gives rise to -/
def fileEvents (pfs : ParsedFS) (f : String) : List Warn.Event :=
  match pfs.get f with
  | some (.ok p) => Warn.directiveEvents f p.directives
  | _ => []

structure DInv (pfs : ParsedFS) (s : PState) : Prop where
  dwarns : s.dwarns = s.inserted.flatMap (fileEvents pfs)
  nodup : s.inserted.Nodup

theorem insertFile_dinv (pfs : ParsedFS) (s : PState) (f : String) (h : DInv pfs s) : DInv pfs (s.insertFile pfs f) := by
  unfold PState.insertFile
  by_cases hc : (s.inserted.contains f || s.err.isSome) = true
  · simp only [hc, if_true]; exact h
  · simp only [hc, Bool.false_eq_true, if_false]
    have hnot : f ∉ s.inserted := by
      intro hm
      apply hc
      simp [hm]
    cases hg : pfs.get f with
    | none => exact ⟨h.dwarns, h.nodup⟩
    | some r =>
      cases r with
      | error e => exact ⟨h.dwarns, h.nodup⟩
      | ok p =>
        refine ⟨?_, ?_⟩
        · simp only [List.flatMap_append, List.flatMap_cons, List.flatMap_nil, List.append_nil, ← h.dwarns]
          simp [fileEvents, hg]
        · simp only []
          rw [List.nodup_append]
          exact ⟨h.nodup, by simp, by intro a ha b hb; simp at hb; subst hb; intro hab; subst hab; exact hnot ha⟩

theorem addAssoc_dframe (s : PState) (f : String) (i : Nat) (p : String) :
    (s.addAssoc f i p).dwarns = s.dwarns ∧ (s.addAssoc f i p).inserted = s.inserted :=
  ⟨(addAssoc_frame s f i p).2.2.1, (addAssoc_frame s f i p).2.2.2.1⟩

theorem includeStep_dinv (m : Bool) (fs : FS) (pfs : ParsedFS) (file : String) (w : World) (idx : Nat) (n : PNode)
    (h : DInv pfs w.st) : DInv pfs (includeStep m fs pfs file w idx n).2.st := by
  unfold includeStep
  split
  · exact ⟨h.dwarns, h.nodup⟩
  · simp only []
    split
    · exact ⟨h.dwarns, h.nodup⟩
    · split
      · exact ⟨h.dwarns, h.nodup⟩
      · split
        · exact insertFile_dinv pfs _ _ ⟨h.dwarns, h.nodup⟩
        · exact insertFile_dinv pfs _ _ ⟨h.dwarns, h.nodup⟩

theorem ops_dinv (m : Bool) (fs : FS) (pfs : ParsedFS) : OpsInv (fun w => DInv pfs w.st) (opsWith m fs pfs) where
  evalIf file w i hw := by
    simp only [opsWith]
    split
    · rcases evalCondW_cases w _ with h | ⟨e, h⟩ <;> rw [h]
      · exact hw
      · exact ⟨hw.dwarns, hw.nodup⟩
    · exact hw
  enter file w i hw := by
    simp only [opsWith]
    unfold enter
    split
    · exact hw
    · split
      · exact hw
      · rename_i n _
        split
        · split
          · split <;> exact hw
          · exact hw
        · split
          · split <;> exact hw
          · exact ⟨hw.dwarns, hw.nodup⟩
        · exact hw
        · exact includeStep_dinv m fs pfs file w i n hw
        · exact hw
  record w file out hw := by
    simp only [opsWith]
    obtain ⟨_, _, c, d, _⟩ := foldl_addAssoc_frame out w.st file w.plat.name
    exact ⟨by rw [c, d]; exact hw.dwarns, by rw [d]; exact hw.nodup⟩
  noFuel w hw := ⟨hw.dwarns, hw.nodup⟩
  crash w hw := ⟨hw.dwarns, hw.nodup⟩

theorem forced_dinv (fs : FS) (pfs : ParsedFS) (fuel : Nat) (src : String) (w : World) (inc : String) (h : DInv pfs w.st) :
    DInv pfs (forcedWith true (assocFile (ops fs pfs) fuel) fs pfs src w inc).st := by
  unfold forcedWith
  split
  · exact h
  · simp only []
    split
    · exact ⟨h.dwarns, h.nodup⟩
    · split
      · exact ⟨h.dwarns, h.nodup⟩
      · split
        · exact insertFile_dinv pfs _ _ ⟨h.dwarns, h.nodup⟩
        · refine assocFile_inv (fun w => DInv pfs w.st) (ops fs pfs) (ops_dinv true fs pfs) fuel _ _ ?_
          exact insertFile_dinv pfs _ _ ⟨h.dwarns, h.nodup⟩

theorem runEntry_dinv (fs : FS) (pfs : ParsedFS) (fuel : Nat) (pname : String) (st : PState) (e : Entry) (h : DInv pfs st) :
    DInv pfs (runEntryWith true (assocFile (ops fs pfs) fuel) fs pfs pname st e) := by
  unfold runEntryWith
  split
  · exact h
  · split
    · exact ⟨h.dwarns, h.nodup⟩
    · rename_i tbl _
      have h1 := foldl_inv (fun w : World => DInv pfs w.st) _
        (fun a x ha => forced_dinv fs pfs fuel e.file a x ha) e.includeFiles
        ({ st := st, plat := { name := pname, tbl := tbl, incPaths := e.includePaths } } : World) h
      simp only []
      split
      · exact h1
      · exact assocFile_inv (fun w => DInv pfs w.st) (ops fs pfs) (ops_dinv true fs pfs) fuel _ _ h1

theorem find_dinv (fs : FS) (codebase : List String) (config : List (String × List Entry)) (fuel : Nat) :
    DInv (parseAll fs) (find fs codebase config fuel) := by
  unfold find findWith
  simp only []
  apply foldl_inv (DInv (parseAll fs))
  · intro st pe hst
    exact foldl_inv (DInv (parseAll fs)) _ (fun a x ha => runEntry_dinv fs (parseAll fs) fuel pe.1 a x ha) pe.2 st hst
  · apply foldl_inv (DInv (parseAll fs))
    · intro s f hs
      exact insertFile_dinv (parseAll fs) s _ hs
    · exact ⟨rfl, List.nodup_nil⟩

end CbiVerif.Inc
