import CbiVerif.Model.Metrics
/-!
C06 — model of the *setmap* (`dict[frozenset[str], int]`) and of the code that fills it:
`ParserState.get_setmap` (`codebasin/finder.py`) and the per-file setmap of `report.files`.

* a platform set (`frozenset`) is a `Key = List String` in canonical (sorted, duplicate-free)
  form — the harness canonicalises, two frozensets are equal iff their canonical lists are;
* a setmap is the list of its `(key, count)` items in dict (insertion) order, the same
  representation as `CbiVerif.Metrics.Setmap`;
* `add` is `setmap[key] += n` on a `defaultdict(int)`: update in place, or append a new item;
* the analysis result is, per code-base file in enumeration order (`for fn in codebase`), the
  list of its `CodeNode`s (this includes every `DirectiveNode`, a subclass) in `tree.walk()`
  order, each with `frozenset(association[node])`, `node.num_lines` and `node.lines`.

Core Lean only.
-/
namespace CbiVerif.SM

abbrev Key := List String
abbrev Setmap := CbiVerif.Metrics.Setmap

/-- `setmap[k] += n` on a `defaultdict(int)` -/
def add : Setmap → Key → Nat → Setmap
  | [], k, n => [(k, n)]
  | e :: rest, k, n => if e.1 = k then (e.1, e.2 + n) :: rest else e :: add rest k n

/-- `setmap.get(k, 0)`, written as the sum over all items carrying `k` (a dict has at most one) -/
def get : Setmap → Key → Nat
  | [], _ => 0
  | e :: rest, k => (if e.1 = k then e.2 else 0) + get rest k

/-- `k in setmap` -/
def has : Setmap → Key → Bool
  | [], _ => false
  | e :: rest, k => decide (e.1 = k) || has rest k

/-- `list(setmap.keys())` -/
def keys (sm : Setmap) : List Key := sm.map (·.1)

/-- `sum(setmap.values())` -/
def total (sm : Setmap) : Nat := CbiVerif.Metrics.total sm

/-- `for ps in src.keys(): dst[ps] += src[ps]` (`FileTree.insert`) -/
def merge (dst src : Setmap) : Setmap := src.foldl (fun d e => add d e.1 e.2) dst

/-- `len(set().union(*setmap.keys())) == 0` negated: some key names a platform -/
def anyPlatform (sm : Setmap) : Bool := sm.any fun e => !e.1.isEmpty

/-- one `CodeNode` of a parsed file with its association -/
structure NodeRec where
  plats : Key
  numLines : Nat
  lines : List Nat
deriving Repr, BEq, DecidableEq

/-- one code-base file: path components below the root, `Path.is_symlink()`, its code nodes -/
structure FileRec where
  path : List String
  link : Bool
  nodes : List NodeRec
deriving Repr

/-- the inner loop of `get_setmap` / `report.files`: `setmap[frozenset(association[node])] += node.num_lines` -/
def addNodes (sm : Setmap) (ns : List NodeRec) : Setmap :=
  ns.foldl (fun s n => add s n.plats n.numLines) sm

/-- the per-file setmap built by `report.files` -/
def fileSetmap (f : FileRec) : Setmap := addNodes [] f.nodes

/-- `ParserState.get_setmap(codebase)`: symlinks (whose target is a member, which holds for every
    enumerated symlink because membership is decided on the resolved path) are skipped -/
def getSetmap (fs : List FileRec) : Setmap :=
  fs.foldl (fun s f => if f.link then s else addNodes s f.nodes) []

/-- `node.num_lines == len(node.lines)` for every node (established by the parser; checked by the harness) -/
def NodesWF (fs : List FileRec) : Prop := ∀ f ∈ fs, ∀ n ∈ f.nodes, n.numLines = n.lines.length

instance (fs : List FileRec) : Decidable (NodesWF fs) := by unfold NodesWF; infer_instance

end CbiVerif.SM
