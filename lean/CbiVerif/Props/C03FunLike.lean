import CbiVerif.Lemmas.MacroFunSim
import CbiVerif.Lemmas.MacroFunCongr
import CbiVerif.Lemmas.MacroFunSimple
import CbiVerif.Lemmas.MacroObjSpec
/-! # C03 — function-like macro expansion (first unbounded fragment)

Model `M` = `CbiVerif.MX.cbiExpand` (the step machine the driver executes).  Reference = `CbiVerif.MX.Ref` (recursive: collect the
call, expand every argument on its own, substitute, rescan with the macro's name disabled).  Fragment = `CbiVerif.MX.FunTbl`
(function-like macros without `#` / `##` / variadic parameters; object-like macros unrestricted) and `CbiVerif.MX.fitsb`
(decidable: every enabled function-like macro name met during the expansion — in the text, in an argument, in a substituted
replacement list — is followed, in the same token list, by a complete call with enough arguments or by a token other than `(`;
no `defined`; nesting budget `d` not exhausted).

* `funlike_partial` — model = reference on the fragment: arguments containing object-like and function-like macro names
  (pre-expansion), nested calls in arguments, function-like names in replacement lists completed inside the replacement list,
  self-reference (painted), any table size, any nesting budget below the limit;
* `terminates_funlike_partial` — `cost + 2` loop iterations suffice (`cost` is computed by the reference recursion);
* `no_backstop_funlike` — the `max_level` backstop plays no role: the run with limit `d + 2` gives the same result;
* `funlike_simple_partial`, `terminates_funlike_simple_partial`, `no_backstop_funlike_simple` — the syntactic sub-fragment
  (`SimpleTbl`, `simpleText`: arguments without macro names, replacement lists without function-like names) where the fragment
  condition and the fuel bound are *proved* (nesting budget `|tbl| + 1`, closed-form iteration bound inside `fuelFor`);
* `FunLikeFull` — what remains open, kept visible;
* against the specification itself: `Props/C03FunConf.lean` (`funlike_conforms_partial`, `funlike_simple_conforms_partial`). -/
namespace CbiVerif.C03
open CbiVerif.PP CbiVerif.MX

/-- **function-like fragment (model side)**: for every table whose function-like macros have no `#` / `##` / variadic parameter
    (`FunTbl`), every nesting budget `d` with `d + 1 < max_level` and every text inside the fragment for that budget (`fitsb`),
    whenever the granted fuel covers the reference's iteration bound, the stack machine returns exactly the recursive expansion
    `Ref` started with no name disabled — no error, no backstop, fuel not exhausted. -/
theorem funlike_partial (tbl : Table) (ts : List Tok) (d : Nat) (hT : FunTbl tbl) (hfit : fitsb tbl d [] ts = true)
    (hd : d + 1 < CbiVerif.Gen.maxLevel) (hfuel : cost tbl d [] ts + 2 ≤ fuelFor tbl ts) :
    cbiExpand tbl ts = .ok (Ref tbl d [] ts) := by
  unfold cbiExpand
  rw [← Ref_top]
  exact expandWith_fun realCfg tbl rfl hT d ts (by rw [fitsb_top]; exact hfit) hd (fuelFor tbl ts) (by rw [cost_top]; exact hfuel)

/-- **termination (function-like fragment)**: `cost tbl d [] ts + 2` loop iterations suffice (any larger fuel gives the same result) -/
theorem terminates_funlike_partial (tbl : Table) (ts : List Tok) (d : Nat) (hT : FunTbl tbl) (hfit : fitsb tbl d [] ts = true)
    (hd : d + 1 < CbiVerif.Gen.maxLevel) (fuel : Nat) (hfuel : cost tbl d [] ts + 2 ≤ fuel) :
    expandWith realCfg tbl fuel ts = .ok (Ref tbl d [] ts) := by
  rw [← Ref_top]
  exact expandWith_fun realCfg tbl rfl hT d ts (by rw [fitsb_top]; exact hfit) hd fuel (by rw [cost_top]; exact hfuel)

/-- **no backstop (function-like fragment)**: the run with nesting limit `d + 2` gives the same result as the real limit -/
theorem no_backstop_funlike (tbl : Table) (ts : List Tok) (d : Nat) (hT : FunTbl tbl) (hfit : fitsb tbl d [] ts = true)
    (hd : d + 1 < CbiVerif.Gen.maxLevel) (hfuel : cost tbl d [] ts + 2 ≤ fuelFor tbl ts) :
    cbiExpand tbl ts = expandWith { lim := d + 2 } tbl (fuelFor tbl ts) ts := by
  rw [funlike_partial tbl ts d hT hfit hd hfuel, ← Ref_top]
  exact (expandWith_fun { lim := d + 2 } tbl rfl hT d ts (by rw [fitsb_top]; exact hfit) (by simp) (fuelFor tbl ts)
    (by rw [cost_top]; exact hfuel)).symm

/-- the fragment on concrete definitions and texts (lexer and `#define` parser included): all hypotheses of `funlike_partial`
    hold with budget `d`, and the expansion has the spellings `expect` -/
def inFragment (defs : List String) (text : String) (d : Nat) (expect : List String) : Bool :=
  match buildTable [] defs with
  | .ok tbl =>
    let ts := tokenize text
    funTblb tbl && fitsb tbl d [] ts && decide (d + 1 < CbiVerif.Gen.maxLevel) && decide (cost tbl d [] ts + 2 ≤ fuelFor tbl ts) &&
      (match cbiExpand tbl ts with | .ok r => r.map spellTok == expect | _ => false) &&
      (Ref tbl d [] ts).map spellTok == expect
  | .error _ => false

/-- non-vacuity, "simple" calls: arguments without macro names, replacement lists without function-like names -/
example : inFragment ["ADD(x,y) x+y*K", "K 2"] "ADD(1,(a,b)) ADD(p q,)" 3
    ["1", "+", "(", "a", ",", "b", ")", "*", "2", "p", "q", "+", "*", "2"] = true := by decide +kernel

/-- widening 1: arguments that contain object-like macro names are completely expanded before substitution -/
example : inFragment ["F(x) [x]", "N 3 N", "M N+1"] "F(M) F(N N)" 4
    ["[", "3", "N", "+", "1", "]", "[", "3", "N", "3", "N", "]"] = true := by decide +kernel

/-- widening 2: nested calls in arguments, calls of other function-like macros in a replacement list (completed inside it),
    self-reference (the inner `F` is painted, not expanded) -/
example : inFragment ["F(x,y) x+G(y)*N", "G(a) (a a)", "N 3 N", "R(x) R(x)-1"] "F(N, G(1)) + R(F(2,3))" 6
    ["3", "N", "+", "(", "(", "1", "1", ")", "(", "1", "1", ")", ")", "*", "3", "N", "+",
     "R", "(", "2", "+", "(", "3", "3", ")", "*", "3", "N", ")", "-", "1"] = true := by decide +kernel

/-! ## the syntactic sub-fragment "simple": no hypothesis about the run is left -/

/-- **simple function-like fragment**: tables (`SimpleTbl`) whose function-like macros have no `#` / `##` / variadic parameter,
    keyed by their own name, no replacement list containing `defined` or the name of a function-like macro; texts (`simpleText`)
    in which every function-like macro name is followed, in the text, by a complete parenthesis-balanced call with enough
    arguments, the arguments containing no macro name and no `defined` (or by a token other than `(`: not a call, the name stays).  With `|tbl| + 2 < max_level` the stack machine returns
    exactly the recursive expansion with nesting budget `|tbl| + 1` — no error, no backstop, and the fuel `fuelFor` grants is
    proved sufficient (closed-form bound `|ts| * Cb (bodyMax tbl) (|tbl| + 1)`). -/
theorem funlike_simple_partial (tbl : Table) (ts : List Tok) (hT : SimpleTbl tbl) (hts : simpleText tbl ts = true)
    (hsz : tbl.length + 2 < CbiVerif.Gen.maxLevel) :
    cbiExpand tbl ts = .ok (Ref tbl (tbl.length + 1) [] ts) := by
  obtain ⟨hfit, hcost⟩ := simple_fits tbl hT ts hts
  exact funlike_partial tbl ts (tbl.length + 1) hT.funTbl hfit hsz (by unfold fuelFor; omega)

/-- **termination (simple fragment)**: the fuel `fuelFor tbl ts` granted by `cbiExpand` suffices -/
theorem terminates_funlike_simple_partial (tbl : Table) (ts : List Tok) (hT : SimpleTbl tbl) (hts : simpleText tbl ts = true)
    (hsz : tbl.length + 2 < CbiVerif.Gen.maxLevel) : cbiExpand tbl ts ≠ .fuel := by
  rw [funlike_simple_partial tbl ts hT hts hsz]; exact fun h => XR.noConfusion h

/-- **no backstop (simple fragment)**: the run with nesting limit `|tbl| + 3` gives the same result as the real limit -/
theorem no_backstop_funlike_simple (tbl : Table) (ts : List Tok) (hT : SimpleTbl tbl) (hts : simpleText tbl ts = true)
    (hsz : tbl.length + 2 < CbiVerif.Gen.maxLevel) :
    cbiExpand tbl ts = expandWith { lim := tbl.length + 3 } tbl (fuelFor tbl ts) ts := by
  obtain ⟨hfit, hcost⟩ := simple_fits tbl hT ts hts
  exact no_backstop_funlike tbl ts (tbl.length + 1) hT.funTbl hfit hsz (by unfold fuelFor; omega)

/-- the hypotheses are satisfiable (definitions and text through the real `#define` parser and lexer), and the result is the
    C standard's: object-like names in the replacement list are expanded on rescan, parenthesised commas stay in one argument -/
example :
    (match buildTable ["K=2"] ["ADD(x,y) x+y*K", "NEG(x) (-x)", "LIM K+1"] with
     | .ok tbl =>
       let ts := tokenize "ADD(1,(a,b)) + NEG(q) * LIM + ADD(p q,) NEG;"
       simpleTblb tbl && simpleText tbl ts && decide (tbl.length + 2 < CbiVerif.Gen.maxLevel) &&
         (match cbiExpand tbl ts with | .ok r => r.map spellTok | _ => []) ==
           ["1", "+", "(", "a", ",", "b", ")", "*", "2", "+", "(", "-", "q", ")", "*", "2", "+", "1", "+", "p", "q", "+", "*", "2", "NEG", ";"]
     | .error _ => false) = true := by decide +kernel

/-- widening 3: a function-like macro name that is not followed by `(` is not a call and stays — in the text and in a replacement
    list, where the substituted argument decides (`G v` with `v ↦ (1)` is a call, with `v ↦ 2` it is not) -/
example : inFragment ["G(a) [a]", "AP(v) G v"] "G + AP((1)) AP(2);" 4
    ["G", "+", "[", "1", "]", "G", "2", ";"] = true := by decide +kernel

/-- **what remains open** for tables of the fragment (kept visible, not claimed): with a sufficiently large nesting limit and
    fuel the machine agrees with the specification (Prosser's algorithm) on *every* text the specification accepts — including
    calls completed by tokens that follow the replacement list or the argument (a function-like name at the very end of a token
    list), and `defined` in the text.  (`#`, `##`, variadic parameters are outside `FunTbl`; for them `C03.Full` is the statement.)

    State (`Props/C03FunConf.lean`): `Ref` = `Spec.Prosser.expand` is proved on the part of the fragment where every call has
    exactly as many arguments as parameters and no call argument holds a macro name (`funlike_conforms_partial`, decidable
    condition `confb`; `funlike_simple_conforms_partial` for the syntactic sub-fragment).  As it stands the statement below is
    *not provable*: `ref_vs_prosser_witness` is a text inside `fitsb` that the specification accepts and on which the machine
    (like gcc) and Prosser's algorithm give different tokens — a function-like name left over by the expansion of an argument
    and called during the rescan; C11 6.10.3.4 p.4 leaves that nesting unspecified.  A provable full statement has to accept
    either result there (or restrict `out` to texts whose call arguments leave no uncalled function-like name behind). -/
def FunLikeFull : Prop :=
  ∀ (tbl : Table) (ts : List Tok) (out : List CbiVerif.Spec.Prosser.T), FunTbl tbl →
    CbiVerif.Spec.Prosser.prosserToks (tbl.map fun e => ⟨e.1, e.2.args, false, e.2.replacement.map (toSpec [])⟩) (ts.map (toSpec [])) = .ok out →
    ∃ lim fuel r, expandWith { lim := lim } tbl fuel ts = .ok r ∧ r.map spellTok = out.map (·.text)

end CbiVerif.C03
