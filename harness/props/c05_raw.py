"""C05, stream `rawstr`: C++11 raw string literals, judged by `g++ -E`.

The specification of C05 (`Spec/CLexRef.lean`) is the C reading of translation phases 2-3: it knows ordinary
string literals and character constants only.  A raw string literal `R"d( ... )d"` is well-formed C++11/14, its
content is code (no comment starts inside it, a `"` does not end it, it may span physical lines without any
backslash), but the specification's scanner reads it as `R` followed by an ordinary literal: most such texts fall
outside `wf` (an "unterminated literal" at the first newline) and were therefore excluded SILENTLY; some are even
accepted by `wf` with the wrong answer.  `c_cleaner` has the same C reading, so the implementation miscounts.

This stream makes the gap visible: small raw-string texts are run through `g++ -E -std=c++14` (line markers give
the physical line of every surviving token: line n holds code iff the preprocessed output has a non-blank line
at position n) and through `FileParser.parse_file`; every disagreement is classified under the recorded finding
F-C05-4 (classifier: the text contains a raw string literal).  A disagreement on a text WITHOUT a raw string
literal would be a violation (the generator also emits a few such control texts).

No backslash-newline is generated here (`g++ -E` moves the tokens of a spliced line to its first physical line, so
line markers cannot attribute them; splices are covered by the main streams).
"""
from __future__ import annotations

import os
import re
import subprocess

from harness.props import c05_impl as I

F4 = "F-C05-4"
RAW_RE = re.compile(r'(?:u8|u|U|L)?R"[^ ()\\\t\v\f\n"]{0,16}\(')


def has_raw_string(text: str) -> bool:
    """classifier of F-C05-4: the text contains the opening of a raw string literal"""
    return bool(RAW_RE.search(text))


DELIMS = ["", "", "x", "ab", "_"]
PREFIX = ["R", "R", "R", "u8R", "LR"]
RAW_PIECES = ["a", "b c", '"', '""', "//", "/*", "*/", "\n", "\n", " ", ")", '")', "\\", "'", "#", "#define X", "\t", ";"]
CODE = ["int x;", "f(1);", "y = 2;", "return;", "{", "}", "x", ";"]
CMT = ["c", " ", '"', "R\"(", "'", "*", "/", "x y", "\n", "\n"]


def gen_raw(rng):
    d = rng.choice(DELIMS)
    body = "".join(rng.choice(RAW_PIECES) for _ in range(rng.randint(0, 6)))
    body = body.replace(")" + d + '"', ") " + d + '"')  # the first `)d"` must be the real end
    return rng.choice(PREFIX) + '"' + d + "(" + body + ")" + d + '"'


def gen_text(rng, control=False):
    """<= 12 logical pieces; every text (unless `control`) holds at least one raw string literal"""
    lines = []
    need_raw = not control
    for _ in range(rng.randint(1, 6)):
        toks = []
        for _ in range(rng.randint(1, 4)):
            r = rng.random()
            if r < 0.35 and not control:
                toks.append(gen_raw(rng))
                need_raw = False
            elif r < 0.55:
                body = "".join(rng.choice(CMT) for _ in range(rng.randint(0, 4))).replace("*/", "* /")
                toks.append("/*" + body + "*/")
            elif r < 0.62:
                toks.append('"s //" ')
            else:
                toks.append(rng.choice(CODE))
        s = " ".join(toks)
        if rng.random() < 0.25:
            s += " // " + rng.choice(["c", 'R"(', '"', "x */"])
        lines.append(s)
    if need_raw:
        lines.insert(rng.randrange(len(lines) + 1), "const char* s = " + gen_raw(rng) + ";")
    text = "\n".join(lines) + "\n"
    return text.replace("\\\n", "\\ \n")  # no splice (see module docstring)


def gxx_code_lines(text: str, d):
    """physical lines on which a token survives `g++ -E -std=c++14`; None if g++ is unavailable or rejects the text"""
    p = os.path.join(str(d), "raw.cpp")
    with open(p, "w", newline="") as f:
        f.write(text)
    try:
        r = subprocess.run(["g++", "-E", "-std=c++14", "-undef", "-nostdinc", "-x", "c++", p],
                           capture_output=True, text=True, timeout=20)
    except (FileNotFoundError, subprocess.TimeoutExpired):
        return None
    if r.returncode != 0 or r.stderr.strip():
        return None
    cur, mine, out = 1, False, set()
    for line in r.stdout.split("\n"):
        m = re.match(r'# (\d+) "([^"]*)"', line)
        if m:
            cur, mine = int(m.group(1)), m.group(2) == p
            continue
        if mine and line.strip(" \t\v\f\r") != "":
            out.add(cur)
        cur += 1
    return sorted(out)


def run_stream(ctx, drv, n, scratch):
    """n generated texts; returns the number judged"""
    judged = 0
    for i in range(n):
        control = i % 10 == 9
        t = gen_text(ctx.rng, control=control)
        truth = gxx_code_lines(t, scratch)
        if truth is None:
            ctx.dist["rawstr:g++-unavailable-or-diagnostic"] += 1
            continue
        judged += 1
        ipar = I.impl_parse(t, path="/nonexistent/c05raw.cpp")
        case = {"text": t, "univ": False, "origin": "rawstr", "gxx_lines": truth}
        ctx.count(key="rawstr:control" if control else "rawstr:raw")
        if drv is not None:
            s = drv.ask({"op": "clex", "text": t, "univ": False})["spec"]
            ctx.dist["rawstr:spec-wf" if s["wf"] else "rawstr:spec-not-wf"] += 1
            if s["wf"] and s["counted"] != truth:
                ctx.dist["rawstr:spec-wf-but-differs-from-g++"] += 1
                if not has_raw_string(t):
                    ctx.violation(f"the specification counts {s['counted']} but g++ -E keeps tokens on {truth} "
                                  f"(no raw string literal in the text)", case)
        if "exc" in ipar:
            got = ipar["exc"]
        else:
            got = sorted(x for nd in ipar["nodes"] for x in nd[1])
        if got != truth:
            ctx.dist["rawstr:impl-differs-from-g++"] += 1
            ctx.classify(dict(case, implementation=got),
                         f"parse_file counts {got} but g++ -E -std=c++14 keeps tokens on lines {truth}",
                         [(F4, lambda c: has_raw_string(c["text"]))])
        else:
            ctx.dist["rawstr:impl-agrees-with-g++"] += 1
            if not control:
                ctx.nontrivial.add(("rawstr", t))
    return judged
