import CbiVerif.Generated.ArgTable
/-! C11 — model of the subset of CPython 3.12 `argparse` that
`codebasin.config.ArgumentParser.parse_args` exercises, **driven by the generated
option table** (`Generated/ArgTable.lean`, re-extracted from `/repo` on every run).

Arguments are `List Char`.  Core Lean only (linked into the native driver).

* `classify`   = `ArgumentParser._parse_optional` + `_get_option_tuples`
                 (exact match, split at the first `=`, single-dash prefix / abbreviation
                 matching — active even with `allow_abbrev=False` —, negative-number and
                 space rules);
* `viewOf`     = what the classified argument does in `consume_optional` for the kinds of
                 option the table contains (value option — `append`, or CBI's `_UndefineAction`
                 of `-U` —, ignored option with a required / an optional argument), `--`;
* `Cfg.apply`  = the action of a value option: `_AppendAction`, or `_UndefineAction.__call__`
                 (the definitions of the named macro made so far are removed from the list; a
                 non-string element — the `[]` that `-D--` stores — makes `re.split` raise `TypeError`);
* `run`        = the consume loop as a left-to-right state machine with one pending request
                 (argparse classifies every argument up front and independently of its
                 neighbours, so the index-based loop over the `O`/`A`/`-` pattern string
                 can be replayed left to right; positional absorption by the `file`
                 positional and the `extras` list do not influence the observed lists);
* `argparseModel` = `parse_known_args` + assembly of the `PreprocessorConfiguration` lists.

Everything the table could contain but the model does not cover (clustered zero-argument
short flags, `type=`, `nargs='+'`, ...) is mapped to `unsupported`, never silently
mis-modelled. -/
namespace CbiVerif.Argparse
open CbiVerif.Gen

abbrev Arg := List Char

/-- A value handed to an action: a string — or the empty *list* that `_get_values` produces when
the explicit argument is `--` (`-D--`, `-I=--`: the `--` is removed and `[]` is stored). -/
inductive Val | str (s : Arg) | emptyList
deriving DecidableEq, Repr, Inhabited

/-- the namespace attributes the property observes -/
inductive Dest | defines | includePaths | systemPaths | includeFiles | other
deriving DecidableEq, Repr, Inhabited

def destOfName : Arg → Dest
  | ['d','e','f','i','n','e','s'] => .defines
  | ['i','n','c','l','u','d','e','_','p','a','t','h','s'] => .includePaths
  | ['s','y','s','t','e','m','_','i','n','c','l','u','d','e','_','p','a','t','h','s'] => .systemPaths
  | ['i','n','c','l','u','d','e','_','f','i','l','e','s'] => .includeFiles
  | _ => .other

/-- the action of an option that takes one value -/
inductive Act
  | append (d : Dest)  -- `action="append"`
  | undef (d : Dest)   -- `action=_UndefineAction` (`-U`): remove the definitions of the named macro from the list
deriving DecidableEq, Repr, Inhabited

/-- what an option does when it fires, as far as the observed lists go -/
inductive Kind
  | value (a : Act)    -- `action="append"` / `action=_UndefineAction`, one argument
  | ignoreReq          -- `store` into an unobserved attribute, one argument (`-o`)
  | ignoreOpt          -- `store` into an unobserved attribute, `nargs="?"` (`-O`, `-g`, `-c`)
  | unsupported
deriving DecidableEq, Repr, Inhabited

structure Opt where
  flag : Arg
  kind : Kind
deriving DecidableEq, Repr, Inhabited

def observed (d : Option Arg) : Bool :=
  match d with
  | none => false
  | some n => destOfName n != .other

def rowKind (r : ArgTable.Row) : Kind :=
  match r.action, r.nargs, r.dest with
  | .append, .none, some d => .value (.append (destOfName d))
  | .undefine, .none, some d => .value (.undef (destOfName d))
  | .store, .none, d => if observed d then .unsupported else .ignoreReq
  | .store, .opt, d => if observed d then .unsupported else .ignoreOpt
  | _, _, _ => .unsupported

def isOptionRow (r : ArgTable.Row) : Bool :=
  r.flags.all fun f => f.head? == some '-'

/-- `parser._option_string_actions`, in insertion order -/
def tableOf (rows : List ArgTable.Row) : List Opt :=
  (rows.filter isOptionRow).flatMap fun r => r.flags.map fun f => ⟨f, rowKind r⟩

/-- the positionals must be the single absorbing `file` (`nargs="*"`): it never fails and never
    touches the observed lists -/
def positionalsOK (rows : List ArgTable.Row) : Bool :=
  (rows.filter (fun r => !isOptionRow r)).all fun r =>
    r.nargs == .star && r.action == .store && !observed r.dest && r.flags.all (fun f => f.head? != some '-')

def table : List Opt := tableOf ArgTable.rows

/-- constructor keywords and parse call the model was written for -/
def settingsOK : Bool :=
  ArgTable.addHelp == false && ArgTable.exitOnError == false && ArgTable.prefixChars == ['-'] &&
  ArgTable.fromfilePrefixChars == none &&
  ArgTable.parseCall == ['p','a','r','s','e','_','k','n','o','w','n','_','a','r','g','s'] &&
  positionalsOK ArgTable.rows

/-- `s in parser._option_string_actions` -/
def lookup : List Opt → Arg → Option Opt
  | [], _ => none
  | o :: t, s => if o.flag = s then some o else lookup t s

/-- `s.split('=', 1)` when `'=' in s` -/
def splitEq : Arg → Option (Arg × Arg)
  | [] => none
  | c :: cs => if c = '=' then some ([], cs) else (splitEq cs).map fun p => (c :: p.1, p.2)

def isDigit (c : Char) : Bool := '0' ≤ c && c ≤ '9'

/-- `^\d+$` on ASCII (Python's `$` also matches before one trailing newline) -/
def digits1 : List Char → Bool
  | [] => false
  | [c] => isDigit c
  | [c, '\n'] => isDigit c
  | c :: cs => isDigit c && digits1 cs

/-- `^\d*\.\d+$` -/
def fracTail : List Char → Bool
  | [] => false
  | c :: cs => if c = '.' then digits1 cs else isDigit c && fracTail cs

/-- `_negative_number_matcher` = `^-\d+$|^-\d*\.\d+$` (ASCII digits) -/
def isNegNumber : Arg → Bool
  | '-' :: rest => digits1 rest || fracTail rest
  | _ => false

inductive Cls
  | positional
  | unknown
  | ambiguous
  | opt (o : Opt) (explicit : Option Arg)
deriving DecidableEq, Repr, Inhabited

/-- `_get_option_tuples` for an argument `- c …` with `c ≠ '-'` -/
def tuples : List Opt → Arg → List Cls
  | [], _ => []
  | o :: t, a =>
    if o.flag = a.take 2 then .opt o (some (a.drop 2)) :: tuples t a
    else if a.isPrefixOf o.flag then .opt o none :: tuples t a
    else tuples t a

/-- `_has_negative_number_optionals` -/
def hasNegOptionals (t : List Opt) : Bool := t.any fun o => isNegNumber o.flag

/-- "if the option string before the `=` is present, return the action" -/
def viaEq (t : List Opt) (a : Arg) : Option Cls :=
  match splitEq a with
  | some (l, r) => (lookup t l).map fun o => .opt o (some r)
  | none => none

/-- not found as an option: negative-number rule, space rule, else an unknown optional -/
def fallback (t : List Opt) (a : Arg) : Cls :=
  if isNegNumber a && !hasNegOptionals t then .positional
  else if a.contains ' ' then .positional
  else .unknown

/-- exactly one interpretation → it; several → ambiguous; none → `fallback` -/
def pick (t : List Opt) (a : Arg) : List Cls → Cls
  | _ :: _ :: _ => .ambiguous
  | [c] => c
  | [] => fallback t a

/-- `_parse_optional` (the argument is not `--`) -/
def classify (t : List Opt) (a : Arg) : Cls :=
  match a with
  | [] => .positional
  | c0 :: tl =>
    if c0 ≠ '-' then .positional
    else match lookup t a with
    | some o => .opt o none
    | none =>
      match tl with
      | [] => .positional
      | c1 :: _ =>
        match viaEq t a with
        | some c => c
        | none =>
          -- two leading prefix characters: abbreviations only with allow_abbrev
          pick t a (if c1 = '-' then [] else tuples t a)

/-- what one argument means to the consume loop -/
inductive View
  | positional                     -- pattern 'A'
  | unknown                        -- unknown optional → extras
  | ambiguous                      -- parser.error → SystemExit(2)
  | valueSep (a : Act)             -- value option, value = next argument
  | valueAtt (a : Act) (v : Val)   -- value attached (`-DX`, `-UX`, or via `=`)
  | ignoreReq                      -- bare `-o`
  | ignoreOpt                      -- bare `-O` / `-g` / `-c`
  | ignoreAtt                      -- `-O2`, `-ofile`, `-g3`, `-ccbin`, `-o=x`
  | ddash                          -- `--`
  | unsupported
deriving DecidableEq, Repr, Inhabited

/-- `_get_values` strips the first `--` -/
def toVal (e : Arg) : Val := if e = ['-', '-'] then .emptyList else .str e

def viewOfCls : Cls → View
  | .positional => .positional
  | .unknown => .unknown
  | .ambiguous => .ambiguous
  | .opt o none =>
    match o.kind with
    | .value a => .valueSep a
    | .ignoreReq => .ignoreReq
    | .ignoreOpt => .ignoreOpt
    | .unsupported => .unsupported
  | .opt o (some e) =>
    match o.kind with
    | .value a => .valueAtt a (toVal e)
    | .ignoreReq => .ignoreAtt
    | .ignoreOpt => .ignoreAtt
    | .unsupported => .unsupported

def viewOf (t : List Opt) (a : Arg) : View :=
  if a = ['-', '-'] then .ddash else viewOfCls (classify t a)

structure Cfg where
  defines : List Val := []
  includePaths : List Val := []
  systemPaths : List Val := []
  includeFiles : List Val := []
deriving DecidableEq, Repr, Inhabited

def Cfg.add (c : Cfg) : Dest → Val → Cfg
  | .defines, v => { c with defines := c.defines ++ [v] }
  | .includePaths, v => { c with includePaths := c.includePaths ++ [v] }
  | .systemPaths, v => { c with systemPaths := c.systemPaths ++ [v] }
  | .includeFiles, v => { c with includeFiles := c.includeFiles ++ [v] }
  | .other, _ => c

def Cfg.get (c : Cfg) : Dest → List Val
  | .defines => c.defines
  | .includePaths => c.includePaths
  | .systemPaths => c.systemPaths
  | .includeFiles => c.includeFiles
  | .other => []

def Cfg.set (c : Cfg) : Dest → List Val → Cfg
  | .defines, l => { c with defines := l }
  | .includePaths, l => { c with includePaths := l }
  | .systemPaths, l => { c with systemPaths := l }
  | .includeFiles, l => { c with includeFiles := l }
  | .other, _ => c

/-- `re.split(r"[=(]", d, 1)[0]`: the macro name of a `-D` value (the stop characters are read from the code) -/
def macroName (d : Arg) : Arg := d.takeWhile fun c => !ArgTable.undefineStops.contains c

/-- `[d for d in defines if re.split(r"[=(]", d, 1)[0] != value]`; `none` = `TypeError` (an element that is not a
string).  A value that is not a string (`-U--` hands over `[]`) is different from every name. -/
def undefList (v : Val) : List Val → Option (List Val)
  | [] => some []
  | .emptyList :: _ => none
  | .str d :: r =>
    match undefList v r with
    | none => none
    | some k => some (if Val.str (macroName d) = v then k else .str d :: k)

inductive PErr
  | argumentError      -- argparse.ArgumentError ("expected one argument")
  | systemExit         -- parser.error(): ambiguous option
  | typeError          -- `_UndefineAction`: `re.split` on a list element that is not a string
  | unsupported        -- the table / settings left the modelled subset
deriving DecidableEq, Repr, Inhabited

/-- the action of a value option: `_AppendAction.__call__` / `_UndefineAction.__call__` -/
def Cfg.apply (c : Cfg) : Act → Val → Except PErr Cfg
  | .append d, v => .ok (c.add d v)
  | .undef d, v =>
    match undefList v (c.get d) with
    | some l => .ok (c.set d l)
    | none => .error .typeError

/-- what the loop is waiting for -/
inductive Pend
  | idle
  | need (a : Act)     -- a value option wants the next argument (must be 'A')
  | needIgn            -- `-o` wants the next argument
  | optIgn             -- `-O`/`-g`/`-c` take the next argument if it is 'A'
  | afterDD            -- after `--`: everything is positional
deriving DecidableEq, Repr, Inhabited

/-- take the action, then wait for nothing -/
def applyIdle (c : Cfg) (a : Act) (w : Val) : Except PErr (Pend × Cfg) :=
  match c.apply a w with
  | .ok c' => .ok (.idle, c')
  | .error e => .error e

def idleStep (v : View) (c : Cfg) : Except PErr (Pend × Cfg) :=
  match v with
  | .ddash => .ok (.afterDD, c)
  | .positional | .unknown | .ignoreAtt => .ok (.idle, c)
  | .ambiguous => .error .systemExit
  | .valueAtt a w => applyIdle c a w
  | .valueSep a => .ok (.need a, c)
  | .ignoreReq => .ok (.needIgn, c)
  | .ignoreOpt => .ok (.optIgn, c)
  | .unsupported => .error .unsupported

def step (t : List Opt) (p : Pend) (c : Cfg) (a : Arg) : Except PErr (Pend × Cfg) :=
  match p with
  | .afterDD => .ok (.afterDD, c)
  | .need act => if viewOf t a = .positional then applyIdle c act (.str a) else .error .argumentError
  | .needIgn => if viewOf t a = .positional then .ok (.idle, c) else .error .argumentError
  | .optIgn => if viewOf t a = .positional then .ok (.idle, c) else idleStep (viewOf t a) c
  | .idle => idleStep (viewOf t a) c

def finish (p : Pend) (c : Cfg) : Except PErr Cfg :=
  match p with
  | .need _ | .needIgn => .error .argumentError
  | _ => .ok c

def run (t : List Opt) : Pend → Cfg → List Arg → Except PErr Cfg
  | p, c, [] => finish p c
  | p, c, a :: rest =>
    match step t p c a with
    | .ok (p', c') => run t p' c' rest
    | .error e => .error e

/-- classification happens up front for everything before `--`: an ambiguous prefix exits at once -/
def ambiguousUpfront (t : List Opt) : List Arg → Bool
  | [] => false
  | a :: rest => if a = ['-', '-'] then false else (viewOf t a == .ambiguous) || ambiguousUpfront t rest

def parseKnown (t : List Opt) (argv : List Arg) : Except PErr Cfg :=
  if ambiguousUpfront t argv then .error .systemExit
  else if t.any (fun o => o.kind == .unsupported) then .error .unsupported
  else run t .idle {} argv

/-- the three list arguments of `PreprocessorConfiguration(...)` -/
structure MResult where
  defines : List Val
  includePaths : List Val
  includeFiles : List Val
deriving DecidableEq, Repr, Inhabited

def gather (c : Cfg) (srcs : List Arg) : List Val := srcs.flatMap fun n => c.get (destOfName n)

def assemble (c : Cfg) : MResult :=
  ⟨gather c ArgTable.definesSrc, gather c ArgTable.includePathsSrc, gather c ArgTable.includeFilesSrc⟩

/-- `config.ArgumentParser(<unrecognised compiler>).parse_args(argv)` → the default pass's lists -/
def argparseModel (argv : List Arg) : Except PErr MResult :=
  if !settingsOK then .error .unsupported
  else (parseKnown table argv).map assemble

end CbiVerif.Argparse
