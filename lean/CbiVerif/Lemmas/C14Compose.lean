import CbiVerif.Model.C14Compose
import CbiVerif.Lemmas.C06Compose
import CbiVerif.Lemmas.Setmap
import CbiVerif.Lemmas.Order
import CbiVerif.Lemmas.OrderSort
import CbiVerif.Lemmas.OrderDups
import Mathlib.Data.List.Perm.Basic
import Mathlib.Data.List.Nodup
/-!
Helper lemmas for `Props/C14Compose.lean`: a closed form of `C06C.analyse` (what a successful run is, as a function of
each file / platform / entry), and the algebra of the setmap under permutation and under re-listing of its keys.
-/
namespace CbiVerif.C14C
open CbiVerif.SM CbiVerif.C06C

/-! ## `mapE`: success is a property of the members, the value is a `map` -/

/-- the value of a successful computation (`d` otherwise) -/
def val {ε β : Type} (d : β) : Except ε β → β
  | .ok b => b
  | .error _ => d

theorem mapE_iff {α β ε : Type} (d : β) (f : α → Except ε β) : ∀ (l : List α) (r : List β),
    mapE f l = .ok r ↔ (∀ a ∈ l, ∃ b, f a = .ok b) ∧ r = l.map fun a => val d (f a) := by
  intro l
  induction l with
  | nil => intro r; simp [mapE, eq_comm]
  | cons a as ih =>
    intro r
    constructor
    · intro h
      simp only [mapE] at h
      cases hfa : f a with
      | error e => simp [hfa] at h
      | ok b =>
        simp only [hfa] at h
        cases hm : mapE f as with
        | error e => simp [hm] at h
        | ok bs =>
          simp only [hm, Except.ok.injEq] at h
          obtain ⟨h1, h2⟩ := (ih bs).mp hm
          subst h
          refine ⟨?_, ?_⟩
          · intro x hx
            rcases List.mem_cons.mp hx with rfl | hx
            · exact ⟨b, hfa⟩
            · exact h1 x hx
          · rw [List.map_cons, hfa, h2]; rfl
    · rintro ⟨h1, h2⟩
      obtain ⟨b, hfa⟩ := h1 a List.mem_cons_self
      have hm := (ih (as.map fun a => val d (f a))).mpr ⟨fun x hx => h1 x (List.mem_cons_of_mem _ hx), rfl⟩
      simp only [mapE, hfa, hm, h2, List.map_cons]
      rfl

theorem zip_map_self {α β γ : Type} (g : α → β) (h : α × β → γ) (l : List α) :
    (l.zip (l.map g)).map h = l.map fun a => h (a, g a) := by
  induction l with
  | nil => rfl
  | cons a l ih => simp [ih]

/-! ## the closed form of a run -/

def dParsed : Parsed := ⟨[], []⟩
def dRun : Run := ([], [])
def dRuns : String × List Run := ("", [])

/-- the parse of a file that parses -/
def pf (f : SrcFile) : Parsed := val dParsed (parseSrc f.text)

/-- `state.get_tree(path)` as a function of the SET of files (file names are distinct) -/
def lkOf (files : List SrcFile) (p : List String) : Option Parsed := (files.find? fun f => f.path == p).map pf

/-- `runEntry` with the tree lookup as a parameter -/
def runEntryL (lk : List String → Option Parsed) (e : Entry) : Except PP.Err Run :=
  match lk e.file with
  | none => .error .index
  | some p =>
    match PP.analyseNodes p.pnodes e.defs with
    | .error er => .error er
    | .ok rows => .ok (e.file, flagsOf rows)

theorem runEntry_eq (files : List SrcFile) (ps : List Parsed) (e : Entry) :
    runEntry files ps e = runEntryL (lookup files ps) e := rfl

theorem lookup_map_pf (files : List SrcFile) (p : List String) : lookup files (files.map pf) p = lkOf files p := by
  unfold lookup lkOf
  induction files with
  | nil => rfl
  | cons f fs ih =>
    simp only [List.map_cons, List.zip_cons_cons, List.find?_cons]
    cases h : f.path == p
    · simpa using ih
    · simp

/-- is node `j` of `path` attributed by the entry `e` (a successful one) -/
def attrE (lk : List String → Option Parsed) (path : List String) (j : Nat) (e : Entry) : Bool :=
  (val dRun (runEntryL lk e)).1 == path && (val dRun (runEntryL lk e)).2.getD j false

/-- the runs of a platform all of whose entries succeed -/
def runsOf (lk : List String → Option Parsed) (pl : Plat) : String × List Run :=
  (pl.name, pl.entries.map fun e => val dRun (runEntryL lk e))

def prOf (lk : List String → Option Parsed) (plats : List Plat) : List (String × List Run) := plats.map (runsOf lk)

/-- the record of a file, as a function of the file, of the lookup and of the platforms -/
def recClosed (lk : List String → Option Parsed) (plats : List Plat) (f : SrcFile) : FileRec :=
  mkRec (prOf lk plats) (f, pf f)

/-- the analysis does not raise: every file parses, every entry names a file and its association does not raise -/
def Good (files : List SrcFile) (plats : List Plat) : Prop :=
  (∀ f ∈ files, ∃ p, parseSrc f.text = .ok p) ∧
  ∀ pl ∈ plats, ∀ e ∈ pl.entries, ∃ r, runEntryL (lkOf files) e = .ok r

theorem runPlat_iff (lk : List String → Option Parsed) (files : List SrcFile) (ps : List Parsed)
    (hlk : lookup files ps = lk) (pl : Plat) (r : String × List Run) :
    runPlat files ps pl = .ok r ↔ (∀ e ∈ pl.entries, ∃ x, runEntryL lk e = .ok x) ∧ r = runsOf lk pl := by
  unfold runPlat runsOf
  have hf : runEntry files ps = runEntryL lk := by funext e; rw [runEntry_eq, hlk]
  rw [hf]
  cases hm : mapE (runEntryL lk) pl.entries with
  | error e =>
    simp only [reduceCtorEq, false_iff, not_and]
    intro h
    have := (mapE_iff dRun (runEntryL lk) pl.entries _).mpr ⟨h, rfl⟩
    rw [hm] at this; cases this
  | ok rs =>
    obtain ⟨h1, h2⟩ := (mapE_iff dRun _ _ _).mp hm
    simp only [Except.ok.injEq]
    constructor
    · intro h; subst h; exact ⟨h1, by rw [h2]⟩
    · rintro ⟨_, h⟩; rw [h, h2]

/-- **closed form**: the analysis succeeds iff `Good`, and then the record of every file is `recClosed` of that file -/
theorem analyse_iff (files : List SrcFile) (plats : List Plat) (fs : List FileRec) :
    analyse files plats = .ok fs ↔ Good files plats ∧ fs = files.map (recClosed (lkOf files) plats) := by
  have hlk : lookup files (files.map pf) = lkOf files := by funext p; exact lookup_map_pf files p
  unfold analyse Good
  cases h1 : mapE (fun f => parseSrc f.text) files with
  | error e =>
    simp only [reduceCtorEq, false_iff, not_and]
    intro ⟨ha, _⟩
    have := (mapE_iff dParsed (fun f : SrcFile => parseSrc f.text) files _).mpr ⟨ha, rfl⟩
    rw [h1] at this; cases this
  | ok ps =>
    obtain ⟨ha, hps⟩ := (mapE_iff dParsed _ _ _).mp h1
    have hps' : ps = files.map pf := hps
    subst hps'
    simp only
    cases h2 : mapE (runPlat files (files.map pf)) plats with
    | error e =>
      simp only [reduceCtorEq, false_iff, not_and]
      intro ⟨_, hb⟩
      have := (mapE_iff dRuns (runPlat files (files.map pf)) plats _).mpr
        ⟨fun pl hpl => ⟨_, (runPlat_iff _ files _ hlk pl _).mpr ⟨hb pl hpl, rfl⟩⟩, rfl⟩
      rw [h2] at this; cases this
    | ok pr =>
      obtain ⟨hb, hpr⟩ := (mapE_iff dRuns _ _ _).mp h2
      have hgood : ∀ pl ∈ plats, ∀ e ∈ pl.entries, ∃ r, runEntryL (lkOf files) e = .ok r := by
        intro pl hpl
        obtain ⟨r, hr⟩ := hb pl hpl
        exact ((runPlat_iff _ files _ hlk pl r).mp hr).1
      have hpr' : pr = prOf (lkOf files) plats := by
        rw [hpr]; unfold prOf
        apply List.map_congr_left
        intro pl hpl
        rw [(runPlat_iff _ files _ hlk pl _).mpr ⟨hgood pl hpl, rfl⟩]; rfl
      subst hpr'
      simp only [Except.ok.injEq, zip_map_self]
      constructor
      · intro h; exact ⟨⟨ha, hgood⟩, h.symm⟩
      · rintro ⟨_, h⟩; exact h.symm

/-! ## permuting the files -/

theorem find?_path_perm (p : List String) {l l' : List SrcFile} (h : l.Perm l') (hnd : (l.map (·.path)).Nodup) :
    l.find? (fun f => f.path == p) = l'.find? (fun f => f.path == p) := by
  induction h with
  | nil => rfl
  | cons x _ ih =>
    simp only [List.map_cons, List.nodup_cons] at hnd
    simp only [List.find?_cons, ih hnd.2]
  | swap x y l =>
    simp only [List.map_cons, List.nodup_cons, List.mem_cons, not_or] at hnd
    simp only [List.find?_cons]
    cases hx : x.path == p <;> cases hy : y.path == p <;> simp only []
    exact absurd ((beq_iff_eq.mp hy).trans (beq_iff_eq.mp hx).symm) hnd.1.1
  | trans h1 _ ih1 ih2 => rw [ih1 hnd, ih2 ((h1.map _).nodup_iff.mp hnd)]

theorem lkOf_perm {files files' : List SrcFile} (h : files.Perm files') (hnd : (files.map (·.path)).Nodup) :
    lkOf files = lkOf files' := by
  funext p; unfold lkOf; rw [find?_path_perm p h hnd]

theorem good_perm_files {files files' : List SrcFile} (h : files.Perm files') (hnd : (files.map (·.path)).Nodup)
    (plats : List Plat) : Good files plats ↔ Good files' plats := by
  unfold Good
  rw [lkOf_perm h hnd]
  constructor
  · rintro ⟨a, b⟩; exact ⟨fun f hf => a f (h.mem_iff.mpr hf), b⟩
  · rintro ⟨a, b⟩; exact ⟨fun f hf => a f (h.mem_iff.mp hf), b⟩

/-! ## the platform set of a node through the closed form -/

theorem attributed_runsOf (lk : List String → Option Parsed) (pl : Plat) (path : List String) (j : Nat) :
    attributed (runsOf lk pl).2 path j = pl.entries.any (attrE lk path j) := by
  unfold attributed runsOf attrE
  simp only [List.any_map]
  rfl

theorem nodeRecs_congr {pr pr' : List (String × List Run)} (path : List String)
    (h : ∀ j, platsOf pr path j = platsOf pr' path j) (ns : List CClean.Node) :
    nodeRecs pr path ns = nodeRecs pr' path ns := by
  unfold nodeRecs; simp only [h]

theorem nodeRecs_relist {pr pr' : List (String × List Run)} (names : List String) (path : List String)
    (h : ∀ j, platsOf pr' path j = relist names (platsOf pr path j)) (ns : List CClean.Node) :
    nodeRecs pr' path ns = (nodeRecs pr path ns).map (relistNode names) := by
  unfold nodeRecs; simp only [h, List.map_map]; rfl

/-! ## the entries of a platform: only the SET matters -/

/-- same platforms in the same order, each with the same SET of database entries (permuted, repeated) -/
def SameEntries (plats plats' : List Plat) : Prop :=
  List.Forall₂ (fun p p' => p.name = p'.name ∧ ∀ e, e ∈ p.entries ↔ e ∈ p'.entries) plats plats'

theorem any_congr_mem {α : Type} {l l' : List α} (h : ∀ a, a ∈ l ↔ a ∈ l') (q : α → Bool) : l.any q = l'.any q := by
  apply Bool.eq_iff_iff.mpr
  simp only [List.any_eq_true]
  constructor
  · rintro ⟨a, ha, hq⟩; exact ⟨a, (h a).mp ha, hq⟩
  · rintro ⟨a, ha, hq⟩; exact ⟨a, (h a).mpr ha, hq⟩

theorem platsOf_sameEntries (lk : List String → Option Parsed) (path : List String) (j : Nat) {plats plats' : List Plat}
    (h : SameEntries plats plats') : platsOf (prOf lk plats) path j = platsOf (prOf lk plats') path j := by
  unfold SameEntries at h
  induction h with
  | nil => rfl
  | @cons p p' ps ps' hp _ ih =>
    unfold platsOf prOf at ih ⊢
    simp only [List.map_cons, List.filter_cons, attributed_runsOf, any_congr_mem hp.2]
    split
    · simp only [List.map_cons, ih]; congr 1; exact hp.1
    · exact ih

theorem good_sameEntries (files : List SrcFile) {plats plats' : List Plat} (h : SameEntries plats plats') :
    Good files plats ↔ Good files plats' := by
  unfold Good
  have key : (∀ pl ∈ plats, ∀ e ∈ pl.entries, ∃ r, runEntryL (lkOf files) e = .ok r) ↔
      (∀ pl ∈ plats', ∀ e ∈ pl.entries, ∃ r, runEntryL (lkOf files) e = .ok r) := by
    unfold SameEntries at h
    induction h with
    | nil => simp
    | @cons p p' ps ps' hp _ ih =>
      simp only [List.forall_mem_cons, ih]
      constructor
      · rintro ⟨a, b⟩; exact ⟨fun e he => a e ((hp.2 e).mpr he), b⟩
      · rintro ⟨a, b⟩; exact ⟨fun e he => a e ((hp.2 e).mp he), b⟩
  rw [key]

theorem recClosed_sameEntries (lk : List String → Option Parsed) {plats plats' : List Plat} (h : SameEntries plats plats')
    (f : SrcFile) : recClosed lk plats f = recClosed lk plats' f := by
  unfold recClosed mkRec
  simp only [nodeRecs_congr f.path (fun j => platsOf_sameEntries lk f.path j h)]

/-! ## permuting the platform tables -/

theorem good_perm_plats (files : List SrcFile) {plats plats' : List Plat} (h : plats.Perm plats') :
    Good files plats ↔ Good files plats' := by
  unfold Good
  constructor
  · rintro ⟨a, b⟩; exact ⟨a, fun pl hpl => b pl (h.mem_iff.mpr hpl)⟩
  · rintro ⟨a, b⟩; exact ⟨a, fun pl hpl => b pl (h.mem_iff.mp hpl)⟩

theorem filter_fst_perm {β : Type} {pr pr' : List (String × β)} (h : pr.Perm pr') (hnd : (pr.map (·.1)).Nodup)
    (att : String × β → Bool) :
    (pr'.filter att).map (·.1) = relist (pr'.map (·.1)) ((pr.filter att).map (·.1)) := by
  unfold relist
  rw [List.filter_map]
  congr 1
  apply List.filter_congr
  intro p hp
  have hp' : p ∈ pr := h.mem_iff.mpr hp
  apply Bool.eq_iff_iff.mpr
  simp only [Function.comp, List.contains_iff_mem, List.mem_map, List.mem_filter]
  constructor
  · intro ha; exact ⟨p, ⟨hp', ha⟩, rfl⟩
  · rintro ⟨q, ⟨hq, ha⟩, he⟩
    have : q = p := List.inj_on_of_nodup_map hnd hq hp' he
    exact this ▸ ha

theorem prOf_names (lk : List String → Option Parsed) (plats : List Plat) :
    (prOf lk plats).map (·.1) = plats.map (·.name) := by
  unfold prOf runsOf; simp [List.map_map, Function.comp_def]

theorem platsOf_perm_plats (lk : List String → Option Parsed) (path : List String) (j : Nat) {plats plats' : List Plat}
    (h : plats.Perm plats') (hnd : (plats.map (·.name)).Nodup) :
    platsOf (prOf lk plats') path j = relist (plats'.map (·.name)) (platsOf (prOf lk plats) path j) := by
  unfold platsOf
  rw [← prOf_names lk plats']
  exact filter_fst_perm (pr := prOf lk plats) (h.map (runsOf lk)) (by rw [prOf_names]; exact hnd) _

theorem recClosed_perm_plats (lk : List String → Option Parsed) {plats plats' : List Plat}
    (h : plats.Perm plats') (hnd : (plats.map (·.name)).Nodup) (f : SrcFile) :
    recClosed lk plats' f = relistRec (plats'.map (·.name)) (recClosed lk plats f) := by
  unfold recClosed mkRec relistRec
  simp only [nodeRecs_relist (plats'.map (·.name)) f.path (fun j => platsOf_perm_plats lk f.path j h hnd)]

/-- every platform set of the analysis is a sub-list of the list of platform names -/
theorem recClosed_keys_sublist (lk : List String → Option Parsed) (plats : List Plat) (f : SrcFile) :
    ∀ n ∈ (recClosed lk plats f).nodes, n.plats.Sublist (plats.map (·.name)) := by
  intro n hn
  unfold recClosed mkRec nodeRecs at hn
  simp only [List.mem_map] at hn
  obtain ⟨x, _, rfl⟩ := hn
  show (platsOf (prOf lk plats) f.path x.2).Sublist _
  unfold platsOf
  rw [← prOf_names lk plats]
  exact List.filter_sublist.map _

/-! ## sub-lists of a duplicate-free list are determined by their members -/

theorem sublist_eq_filter {names k : List String} (hnd : names.Nodup) (hs : k.Sublist names) :
    names.filter (fun x => k.contains x) = k := by
  induction hs with
  | slnil => rfl
  | @cons a l x hs ih =>
    obtain ⟨hx, hnd'⟩ := List.nodup_cons.mp hnd
    have hxa : x ∉ a := fun h => hx (hs.subset h)
    simp only [List.filter_cons, List.contains_iff_mem, hxa, ih hnd']
    simp
  | @cons_cons a l x hs ih =>
    obtain ⟨hx, hnd'⟩ := List.nodup_cons.mp hnd
    simp only [List.filter_cons, List.contains_iff_mem, List.mem_cons, true_or, if_true]
    congr 1
    refine Eq.trans ?_ (ih hnd')
    apply List.filter_congr
    intro y hy
    have hne : y ≠ x := fun h => hx (h ▸ hy)
    simp [hne]

theorem relist_perm {names names' k : List String} (hnd : names.Nodup) (h : names.Perm names') (hs : k.Sublist names) :
    (relist names' k).Perm k := by
  have := (h.filter fun x => k.contains x).symm
  rw [sublist_eq_filter hnd hs] at this
  exact this

theorem sublist_ext_perm {names a b : List String} (hnd : names.Nodup) (ha : a.Sublist names) (hb : b.Sublist names)
    (h : a.Perm b) : a = b := by
  rw [← sublist_eq_filter hnd ha, ← sublist_eq_filter hnd hb]
  apply List.filter_congr
  intro x _
  apply Bool.eq_iff_iff.mpr
  simp only [List.contains_iff_mem]
  exact h.mem_iff

/-! ## the sort key of the summary table -/

open CbiVerif.Summary in
theorem listLe_eq_lexLe : ∀ a b : List String, listLe a b = CbiVerif.Order.lexLe a b
  | [], _ => by simp [listLe, CbiVerif.Order.lexLe]
  | _ :: _, [] => by simp [listLe, CbiVerif.Order.lexLe]
  | a :: as, b :: bs => by
    simp only [listLe, CbiVerif.Order.lexLe, listLe_eq_lexLe as bs]
    by_cases h1 : a < b
    · simp [h1]
    · by_cases h2 : a = b <;> simp [h1, h2]

open CbiVerif.Summary in
theorem keyLe_eq (a b : Key × Nat) : keyLe a b = CbiVerif.Order.keyLe (sortStrings a.1) (sortStrings b.1) := by
  unfold keyLe CbiVerif.Order.keyLe sortStrings
  simp only [List.length_mergeSort, listLe_eq_lexLe]

open CbiVerif.Summary in
theorem keyLe_trans (a b c : Key × Nat) : keyLe a b → keyLe b c → keyLe a c := by
  simp only [keyLe_eq]; exact CbiVerif.Order.keyLe_trans _ _ _

open CbiVerif.Summary in
theorem keyLe_total (a b : Key × Nat) : keyLe a b || keyLe b a := by
  simp only [keyLe_eq]; exact CbiVerif.Order.keyLe_total _ _

open CbiVerif.Summary in
theorem sortStrings_perm {a b : List String} (h : a.Perm b) : sortStrings a = sortStrings b := by
  unfold sortStrings
  exact CbiVerif.Order.mergeSort_eq_of_perm (le := fun a b : String => decide (a ≤ b))
    CbiVerif.Order.strLe_trans CbiVerif.Order.strLe_total (fun a _ b _ => CbiVerif.Order.strLe_antisymm a b) h

open CbiVerif.Summary in
theorem perm_of_sortStrings_eq {a b : List String} (h : sortStrings a = sortStrings b) : a.Perm b := by
  unfold sortStrings at h
  exact (List.mergeSort_perm a _).symm.trans (h ▸ List.mergeSort_perm b _)

open CbiVerif.Summary in
/-- on a dict whose keys are sub-lists of one duplicate-free list of names the sort key is injective -/
theorem keyLe_antisymm_on {names : List String} (hnd : names.Nodup) {sm : Setmap} (hk : (keys sm).Nodup)
    (hs : ∀ e ∈ sm, e.1.Sublist names) : ∀ a ∈ sm, ∀ b ∈ sm, keyLe a b → keyLe b a → a = b := by
  intro a ha b hb h1 h2
  rw [keyLe_eq] at h1 h2
  have hp := perm_of_sortStrings_eq (CbiVerif.Order.keyLe_antisymm _ _ h1 h2)
  have he : a.1 = b.1 := sublist_ext_perm hnd (hs a ha) (hs b hb) hp
  exact List.inj_on_of_nodup_map (f := fun e : Key × Nat => e.1) hk ha hb he

/-! ## a dict is determined, up to insertion order, by `in` and `get` -/

theorem get_of_not_mem (sm : Setmap) (k : Key) (h : k ∉ keys sm) : SM.get sm k = 0 := by
  induction sm with
  | nil => rfl
  | cons e rest ih =>
    simp only [keys, List.map_cons, List.mem_cons, not_or] at h
    have h1 : ¬ e.1 = k := fun h' => h.1 h'.symm
    simp only [SM.get, h1, if_false, Nat.zero_add]
    exact ih h.2

theorem mem_iff_has_get (sm : Setmap) (h : (keys sm).Nodup) (e : Key × Nat) :
    e ∈ sm ↔ has sm e.1 = true ∧ SM.get sm e.1 = e.2 := by
  induction sm with
  | nil => simp [has]
  | cons e0 rest ih =>
    simp only [keys, List.map_cons, List.nodup_cons] at h
    have ih' := ih h.2
    by_cases hk : e0.1 = e.1
    · have hnot : e.1 ∉ keys rest := hk ▸ h.1
      have hnr : e ∉ rest := fun hm => hnot (List.mem_map_of_mem (f := fun x : Key × Nat => x.1) hm)
      have hg : SM.get (e0 :: rest) e.1 = e0.2 := by
        simp only [SM.get, hk, if_true, get_of_not_mem rest e.1 hnot, Nat.add_zero]
      have hh : has (e0 :: rest) e.1 = true := by simp [has, hk]
      rw [hg, hh]
      simp only [List.mem_cons, hnr, or_false, true_and]
      constructor
      · intro he; rw [he]
      · intro he; exact Prod.ext hk.symm he.symm
    · have hne : e ≠ e0 := fun he => hk (he ▸ rfl)
      have hg : SM.get (e0 :: rest) e.1 = SM.get rest e.1 := by simp only [SM.get, hk, if_false, Nat.zero_add]
      have hh : has (e0 :: rest) e.1 = has rest e.1 := by simp [has, hk]
      rw [hg, hh]
      simp only [List.mem_cons, hne, false_or]
      exact ih'

theorem perm_of_has_get {sm sm' : Setmap} (h : (keys sm).Nodup) (h' : (keys sm').Nodup)
    (hh : ∀ k, has sm k = has sm' k) (hg : ∀ k, SM.get sm k = SM.get sm' k) : sm.Perm sm' := by
  apply (List.perm_ext_iff_of_nodup (List.Nodup.of_map _ h) (List.Nodup.of_map _ h')).mpr
  intro e
  rw [mem_iff_has_get sm h, mem_iff_has_get sm' h', hh, hg]

theorem nodup_keys_getSetmap (fs : List FileRec) : (keys (getSetmap fs)).Nodup :=
  getSetmap_nodup_fold fs [] List.nodup_nil

/-- permuting the files permutes the items of the dict -/
theorem getSetmap_perm {fs fs' : List FileRec} (h : fs.Perm fs') :
    (getSetmap fs).Perm (getSetmap fs') ∧ (∀ k, SM.get (getSetmap fs) k = SM.get (getSetmap fs') k) ∧
    ∀ k, has (getSetmap fs) k = has (getSetmap fs') k := by
  have hg : ∀ k, SM.get (getSetmap fs) k = SM.get (getSetmap fs') k := by
    intro k
    unfold getSetmap
    rw [getSetmap_fold, getSetmap_fold]
    congr 1
    exact (((h.filter _).map _)).sum_nat
  have hh : ∀ k, has (getSetmap fs) k = has (getSetmap fs') k := by
    intro k
    unfold getSetmap
    rw [getSetmap_has_fold, getSetmap_has_fold]
    congr 1
    exact (h.filter _).any_eq
  exact ⟨perm_of_has_get (nodup_keys_getSetmap fs) (nodup_keys_getSetmap fs') hh hg, hg, hh⟩

/-- the keys of the dict are platform sets of nodes -/
theorem key_of_getSetmap (fs : List FileRec) (e : Key × Nat) (he : e ∈ getSetmap fs) :
    ∃ r ∈ fs, ∃ n ∈ r.nodes, n.plats = e.1 := by
  have hk : e.1 ∈ keys (getSetmap fs) := List.mem_map_of_mem (f := fun x : Key × Nat => x.1) he
  have := (has_iff_mem_keys _ _).mpr hk
  unfold getSetmap at this
  rw [getSetmap_has_fold] at this
  simp only [has, Bool.false_or, List.any_eq_true, List.mem_filter, decide_eq_true_eq] at this
  obtain ⟨r, ⟨hr, _⟩, n, hn, hp⟩ := this
  exact ⟨r, hr, n, hn, hp⟩

/-! ## the summary table of two dicts with the same items -/

open CbiVerif.Summary in
theorem rows_perm {sm sm' : Setmap} (h : sm.Perm sm')
    (anti : ∀ a ∈ sm, ∀ b ∈ sm, keyLe a b → keyLe b a → a = b) :
    rows sm = rows sm' ∧ totalCount sm = totalCount sm' := by
  have hs : sm.mergeSort keyLe = sm'.mergeSort keyLe :=
    CbiVerif.Order.mergeSort_eq_of_perm keyLe_trans keyLe_total anti h
  have ht : total sm = total sm' := CbiVerif.Order.total_perm h
  have hn : sm = [] ↔ sm' = [] := CbiVerif.Order.eq_nil_iff_of_perm h
  unfold rows totalCount
  simp only [hs, ht, ne_eq, hn, and_self]

/-! ## re-listing the keys of a dict (an injective renaming of the platform sets) -/

def ren (σ : Key → Key) (e : Key × Nat) : Key × Nat := (σ e.1, e.2)
def renNode (σ : Key → Key) (n : NodeRec) : NodeRec := { n with plats := σ n.plats }
def renRec (σ : Key → Key) (r : FileRec) : FileRec := { r with nodes := r.nodes.map (renNode σ) }

theorem relistRec_eq (names : List String) : relistRec names = renRec (relist names) := rfl
theorem relistSetmap_eq (names : List String) (sm : Setmap) : relistSetmap names sm = sm.map (ren (relist names)) := rfl

section ren
variable (σ : Key → Key) (P : Key → Prop) (hσ : ∀ a b, P a → P b → σ a = σ b → a = b)
include hσ

theorem add_ren (sm : Setmap) (k : Key) (n : Nat) (hs : ∀ e ∈ sm, P e.1) (hk : P k) :
    add (sm.map (ren σ)) (σ k) n = (add sm k n).map (ren σ) ∧ ∀ e ∈ add sm k n, P e.1 := by
  induction sm with
  | nil => exact ⟨rfl, by intro e he; simp only [add, List.mem_singleton] at he; subst he; exact hk⟩
  | cons e rest ih =>
    have hP := hs e List.mem_cons_self
    obtain ⟨ih1, ih2⟩ := ih (fun e' he' => hs e' (List.mem_cons_of_mem _ he'))
    by_cases h : e.1 = k
    · have h' : σ e.1 = σ k := by rw [h]
      refine ⟨by simp [add, ren, h], ?_⟩
      intro e' he'
      simp only [add, h, if_true, List.mem_cons] at he'
      rcases he' with rfl | he'
      · exact hk
      · exact hs e' (List.mem_cons_of_mem _ he')
    · have h' : ¬ σ e.1 = σ k := fun hh => h (hσ _ _ hP hk hh)
      refine ⟨?_, ?_⟩
      · simp only [List.map_cons, add, ren, h, h', if_false]
        congr 1
      · intro e' he'
        simp only [add, h, if_false, List.mem_cons] at he'
        rcases he' with rfl | he'
        · exact hP
        · exact ih2 e' he'

theorem addNodes_ren (ns : List NodeRec) : ∀ (sm : Setmap), (∀ e ∈ sm, P e.1) → (∀ n ∈ ns, P n.plats) →
    addNodes (sm.map (ren σ)) (ns.map (renNode σ)) = (addNodes sm ns).map (ren σ) ∧ ∀ e ∈ addNodes sm ns, P e.1 := by
  induction ns with
  | nil => intro sm hs _; exact ⟨rfl, hs⟩
  | cons n ns ih =>
    intro sm hs hn
    obtain ⟨h1, h2⟩ := add_ren σ P hσ sm n.plats n.numLines hs (hn n List.mem_cons_self)
    have := ih (add sm n.plats n.numLines) h2 (fun n' hn' => hn n' (List.mem_cons_of_mem _ hn'))
    unfold addNodes at this ⊢
    simp only [List.map_cons, List.foldl_cons]
    show List.foldl _ (add (sm.map (ren σ)) (σ n.plats) n.numLines) _ = _ ∧ _
    rw [h1]
    exact this

theorem getSetmap_ren_fold (fs : List FileRec) : ∀ (s : Setmap), (∀ e ∈ s, P e.1) → (∀ r ∈ fs, ∀ n ∈ r.nodes, P n.plats) →
    (fs.map (renRec σ)).foldl (fun s f => if f.link then s else addNodes s f.nodes) (s.map (ren σ))
      = ((fs.foldl (fun s f => if f.link then s else addNodes s f.nodes) s)).map (ren σ) := by
  induction fs with
  | nil => intro s _ _; rfl
  | cons r fs ih =>
    intro s hs hn
    simp only [List.map_cons, List.foldl_cons]
    have hn' := fun r' hr' => hn r' (List.mem_cons_of_mem _ hr')
    cases hl : r.link
    · obtain ⟨h1, h2⟩ := addNodes_ren σ P hσ r.nodes s hs (hn r List.mem_cons_self)
      have : (renRec σ r).link = false := hl
      simp only [this, Bool.false_eq_true, if_false]
      show List.foldl _ (addNodes (s.map (ren σ)) (r.nodes.map (renNode σ))) _ = _
      rw [h1]
      exact ih _ h2 hn'
    · have : (renRec σ r).link = true := hl
      simp only [this, if_true]
      exact ih s hs hn'

/-- **the dict of the re-listed analysis is the re-listed dict**: same items in the same insertion order -/
theorem getSetmap_ren (fs : List FileRec) (hn : ∀ r ∈ fs, ∀ n ∈ r.nodes, P n.plats) :
    getSetmap (fs.map (renRec σ)) = (getSetmap fs).map (ren σ) :=
  getSetmap_ren_fold σ P hσ fs [] (by intro e he; cases he) hn

end ren

open CbiVerif.Summary in
/-- what is PRINTED of the table does not change when every key is listed in another order -/
theorem printed_rows_ren (σ : Key → Key) (sm : Setmap) (hperm : ∀ e ∈ sm, (σ e.1).Perm e.1) :
    printed (rows (sm.map (ren σ))) = printed (rows sm) ∧ totalCount (sm.map (ren σ)) = totalCount sm := by
  have htot : total (sm.map (ren σ)) = total sm := by
    unfold total CbiVerif.Metrics.total; simp [List.map_map, Function.comp_def, ren]
  have hl : ∀ a ∈ sm, ∀ b ∈ sm, keyLe a b = keyLe (ren σ a) (ren σ b) := by
    intro a ha b hb
    rw [keyLe_eq, keyLe_eq]
    simp only [ren, sortStrings_perm (hperm a ha), sortStrings_perm (hperm b hb)]
  have hs := List.map_mergeSort (f := ren σ) (r := keyLe) (s := keyLe) hl
  have hnil : sm.map (ren σ) = [] ↔ sm = [] := List.map_eq_nil_iff
  refine ⟨?_, ?_⟩
  · unfold printed rows
    rw [htot, ← hs]
    by_cases hz : total sm = 0 ∧ sm ≠ []
    · have : total sm = 0 ∧ sm.map (ren σ) ≠ [] := ⟨hz.1, fun h => hz.2 (hnil.mp h)⟩
      rw [if_pos hz, if_pos this]
    · have : ¬(total sm = 0 ∧ sm.map (ren σ) ≠ []) := fun h => hz ⟨h.1, fun h' => h.2 (hnil.mpr h')⟩
      rw [if_neg hz, if_neg this]
      simp only [Option.map_some, List.map_map]
      congr 1
      apply List.map_congr_left
      intro e he
      have he' : e ∈ sm := List.mem_mergeSort.mp he
      simp only [Function.comp, mkRow, ren, rowName, sortStrings_perm (hperm e he')]
  · unfold totalCount
    rw [← hs, List.map_map]
    rfl

/-! ## coverage and per-line attribution under re-listing -/

theorem split_ren (σ : Key → Key) (ns : List NodeRec) (h : ∀ n ∈ ns, (σ n.plats).isEmpty = n.plats.isEmpty) :
    CbiVerif.Cov.split (ns.map (renNode σ)) = CbiVerif.Cov.split ns := by
  unfold CbiVerif.Cov.split
  generalize (⟨[], []⟩ : CbiVerif.Cov.Split) = s
  induction ns generalizing s with
  | nil => rfl
  | cons n ns ih =>
    simp only [List.map_cons, List.foldl_cons]
    have : (renNode σ n).plats.isEmpty = n.plats.isEmpty := h n List.mem_cons_self
    rw [this]
    exact ih (fun n' hn' => h n' (List.mem_cons_of_mem _ hn')) _

theorem isEmpty_of_perm {a b : List String} (h : a.Perm b) : a.isEmpty = b.isEmpty := by
  cases a <;> cases b <;> simp_all

theorem compute_ren (σ : Key → Key) (fs : List FileRec) (h : ∀ r ∈ fs, ∀ n ∈ r.nodes, (σ n.plats).Perm n.plats) :
    CbiVerif.Cov.compute (fs.map (renRec σ)) = CbiVerif.Cov.compute fs := by
  unfold CbiVerif.Cov.compute
  rw [List.filter_map, List.map_map]
  have : ((fun f : FileRec => !f.link) ∘ renRec σ) = fun f : FileRec => !f.link := rfl
  rw [this]
  apply List.map_congr_left
  intro r hr
  have hr' : r ∈ fs := (List.mem_filter.mp hr).1
  simp only [Function.comp]
  show ((renRec σ r).path, CbiVerif.Cov.split (r.nodes.map (renNode σ))) = _
  rw [split_ren σ r.nodes (fun n hn => isEmpty_of_perm (h r hr' n hn))]
  rfl

theorem attrOf_ren (σ : Key → Key) (r : FileRec) (h : ∀ n ∈ r.nodes, (σ n.plats).Perm n.plats) :
    attrOf (renRec σ r) = attrOf r := by
  unfold attrOf
  show (r.nodes.map (renNode σ)).flatMap _ = _
  rw [List.flatMap_map]
  apply List.flatMap_congr
  intro n hn
  show n.lines.map (fun l => (l, CbiVerif.Summary.sortStrings (σ n.plats))) = _
  rw [sortStrings_perm (h n hn)]

theorem attrExport_ren (σ : Key → Key) (fs : List FileRec) (h : ∀ r ∈ fs, ∀ n ∈ r.nodes, (σ n.plats).Perm n.plats) :
    attrExport (fs.map (renRec σ)) = attrExport fs := by
  unfold attrExport
  rw [List.map_map]
  congr 1
  apply List.map_congr_left
  intro r hr
  simp only [Function.comp, attrOf_ren σ r (h r hr)]
  rfl

/-! ## the sorted exports under permutation of the files -/

theorem attrLe_trans (a b c : String × List (Nat × List String)) : attrLe a b → attrLe b c → attrLe a c := by
  simp only [attrLe, decide_eq_true_eq]; exact fun h1 h2 => le_trans h1 h2

theorem attrLe_total (a b : String × List (Nat × List String)) : attrLe a b || attrLe b a := by
  simp only [attrLe, Bool.or_eq_true, decide_eq_true_eq]; exact le_total _ _

theorem attrExport_perm {fs fs' : List FileRec} (h : fs.Perm fs') (hnd : (fs.map fun r => fileName r.path).Nodup) :
    attrExport fs = attrExport fs' := by
  unfold attrExport
  apply CbiVerif.Order.mergeSort_eq_of_perm attrLe_trans attrLe_total _ (h.map _)
  intro a ha b hb h1 h2
  have hfile : a.1 = b.1 := by
    simp only [attrLe, decide_eq_true_eq] at h1 h2
    exact le_antisymm h1 h2
  have hnd' : ((fs.map fun r => (fileName r.path, attrOf r)).map (·.1)).Nodup := by
    simpa [List.map_map, Function.comp_def] using hnd
  exact List.inj_on_of_nodup_map hnd' ha hb hfile

theorem covExport_perm {fs fs' : List FileRec} (h : fs.Perm fs') (hnd : (fs.map fun r => fileName r.path).Nodup) :
    covExport fs = covExport fs' := by
  unfold covExport CbiVerif.Order.covExport CbiVerif.Cov.compute
  apply CbiVerif.Order.mergeSort_eq_of_perm CbiVerif.Order.covLe_trans CbiVerif.Order.covLe_total _
    (((h.filter _).map _).map _)
  intro a ha b hb h1 h2
  have hfile : a.file = b.file := by
    simp only [CbiVerif.Order.covLe, decide_eq_true_eq] at h1 h2
    exact le_antisymm h1 h2
  have hnd' : ((((fs.filter fun f => !f.link).map fun f => (f.path, CbiVerif.Cov.split f.nodes)).map covRecord).map (·.file)).Nodup := by
    have : (((fs.filter fun f => !f.link).map fun f => (f.path, CbiVerif.Cov.split f.nodes)).map covRecord).map (·.file)
        = (fs.filter fun f => !f.link).map fun r => fileName r.path := by
      simp [List.map_map, Function.comp_def, covRecord]
    rw [this]
    exact hnd.sublist (List.filter_sublist.map _)
  exact List.inj_on_of_nodup_map hnd' ha hb hfile

/-! ## the listed results through the closed form -/

/-- the analysis result when the analysis does not raise -/
def closed (files : List SrcFile) (plats : List Plat) : List FileRec := files.map (recClosed (lkOf files) plats)

theorem analyse_closed (files : List SrcFile) (plats : List Plat) (h : Good files plats) :
    analyse files plats = .ok (closed files plats) := (analyse_iff files plats _).mpr ⟨h, rfl⟩

theorem results_eq_of_good {files files' : List SrcFile} {plats plats' : List Plat}
    (hg : Good files plats ↔ Good files' plats')
    (hc : Good files plats → Good files' plats' → canonOf (closed files plats) = canonOf (closed files' plats')) :
    resultsOfTexts files plats = resultsOfTexts files' plats' := by
  by_cases h : Good files plats
  · have h' := hg.mp h
    unfold resultsOfTexts
    rw [analyse_closed files plats h, analyse_closed files' plats' h']
    simp only [hc h h']
  · have h' : ¬ Good files' plats' := fun x => h (hg.mpr x)
    have e1 : resultsOfTexts files plats = none := by
      unfold resultsOfTexts
      cases ha : analyse files plats with
      | error e => rfl
      | ok fs => exact absurd ((analyse_iff files plats fs).mp ha).1 h
    have e2 : resultsOfTexts files' plats' = none := by
      unfold resultsOfTexts
      cases ha : analyse files' plats' with
      | error e => rfl
      | ok fs => exact absurd ((analyse_iff files' plats' fs).mp ha).1 h'
    rw [e1, e2]

theorem closed_keys_sublist (files : List SrcFile) (plats : List Plat) :
    ∀ r ∈ closed files plats, ∀ n ∈ r.nodes, n.plats.Sublist (plats.map (·.name)) := by
  intro r hr
  obtain ⟨f, _, rfl⟩ := List.mem_map.mp hr
  exact recClosed_keys_sublist _ plats f

theorem setmap_keys_sublist (files : List SrcFile) (plats : List Plat) :
    ∀ e ∈ getSetmap (closed files plats), e.1.Sublist (plats.map (·.name)) := by
  intro e he
  obtain ⟨r, hr, n, hn, hp⟩ := key_of_getSetmap _ e he
  exact hp ▸ closed_keys_sublist files plats r hr n hn

theorem closed_names (files : List SrcFile) (plats : List Plat) :
    (closed files plats).map (fun r => fileName r.path) = files.map fun f => fileName f.path := by
  unfold closed; simp only [List.map_map]; rfl

theorem relist_inj {names names' : List String} (hnd : names.Nodup) (h : names.Perm names') (a b : Key)
    (ha : a.Sublist names) (hb : b.Sublist names) (he : relist names' a = relist names' b) : a = b :=
  sublist_ext_perm hnd ha hb ((relist_perm hnd h ha).symm.trans (he ▸ relist_perm hnd h hb))

end CbiVerif.C14C
