"""C13 (closure) — decoy stream: generated include trees (harness/gen/inctree.py) salted with DECOY files that no
entry names and nothing reached includes, checked end to end:

  implementation   config.load_database on a generated compile_commands.json per platform, then finder.find
                   -> per platform, the set of files with at least one node attributed to it
  model (Lean)     driver op `reachinc`: `Inc.find` -> `PState.attributedFiles` (the definition of
                   C13.attributed_files_reachable / only_named_files_model) and the roots of each platform's entries
  oracles          (1) the independent reference preprocessor of inctree.py: the files it processes for the entry;
                   (2) `gcc -M -MG` run from the entry's directory: the files a real compiler reads.

A violation is reported when the implementation attributes a platform to a file that the reference preprocessor (and
gcc, when it accepts the sources) does not read for any entry of that platform, or fails to attribute a file it reads.
"""
from __future__ import annotations

import json
import os
import posixpath
import subprocess

from harness import core
from harness.gen import inctree as G

CATS = ("same_dir_source", "same_dir_header", "flagdir_header", "same_name_elsewhere", "unsearched_dir", "top_level",
        "only_from_decoy", "companion_header", "unresolvable_include_same_name")


def salt(rng, desc):
    """add decoy candidates to a generated tree; returns {relpath: category}.  Whether a candidate really is a decoy
    (it may shadow a header that was found further down the search chain) is decided afterwards by the oracles."""
    files = desc["files"]
    n = [10_000 + rng.randint(0, 50) * 10]

    def mark():
        n[0] += 1
        return f"int m{n[0]};"

    cands = {}
    srcdirs = sorted({posixpath.dirname(e["file"]) for e in desc["entries"]})
    flagdirs = sorted({(d[4:] if d.startswith("lnk_") else d) for e in desc["entries"] for _, d in e["flags"]})
    hdrs = sorted(p for p in files if p.endswith(".h"))
    # (a) sources beside the entries' sources; they include real headers (which must not become attributed for that)
    for d in srcdirs:
        for k in range(rng.randint(1, 2)):
            p = posixpath.join(d, f"decoy{k}.c")
            body = [mark()]
            for h in rng.sample(hdrs, min(len(hdrs), rng.randint(0, 2))):
                body.append(f'#include "{posixpath.basename(h)}"' if rng.random() < 0.5 else f"#include <{posixpath.basename(h)}>")
            if rng.random() < 0.6:
                body.append('#include "only_decoy.h"')
            body.append(mark())
            files[p] = body
            cands[p] = "same_dir_source"
        p = posixpath.join(d, "only_decoy.h")          # a header that only decoy sources include
        files[p] = ["#pragma once", mark()]
        cands[p] = "only_from_decoy"
        p = posixpath.join(d, f"decoy_{rng.randint(0, 3)}.h")
        files[p] = [mark()]
        cands[p] = "same_dir_header"
    # (b) headers in the -I / -isystem directories that nobody includes
    for d in flagdirs:
        if rng.random() < 0.8:
            p = posixpath.join(d, f"decoy_{rng.randint(0, 3)}.h")
            if p not in files:
                files[p] = [mark(), "#define DECOY_SEEN 1"]
                cands[p] = "flagdir_header"
    # (c) the base name of a header that IS included, in a directory where it does not exist yet
    for h in rng.sample(hdrs, min(len(hdrs), rng.randint(1, 3))):
        others = [d for d in G.DIRS + ["other", ""] if posixpath.join(d, posixpath.basename(h)) not in files]
        if others:
            d = rng.choice(others)
            p = posixpath.join(d, posixpath.basename(h))
            files[p] = [mark(), "#define A 2" if rng.random() < 0.3 else mark()]
            cands[p] = "same_name_elsewhere"
    # (d) a directory no command mentions, and the top of the tree
    files["other/stray.c"] = [mark(), '#include "../inc1/h0.h"' if "inc1/h0.h" in files else mark()]
    cands["other/stray.c"] = "unsearched_dir"
    files["other/stray.h"] = [mark()]
    cands["other/stray.h"] = "unsearched_dir"
    files["top_decoy.h"] = [mark()]
    cands["top_decoy.h"] = "top_level"
    if rng.random() < 0.5:
        files["top_decoy.c"] = [mark(), '#include "top_decoy.h"']
        cands["top_decoy.c"] = "top_level"
    # (e) the companion header of an entry's source (main.h beside main.c) that the source does not include
    for e in desc["entries"]:
        stem = posixpath.splitext(e["file"])[0]
        for ext in (".h", ".hpp"):
            if stem + ext not in files and rng.random() < 0.6:
                files[stem + ext] = [mark()]
                cands[stem + ext] = "companion_header"
    # (f) an include that resolves nowhere on the command's search chain while a file of that name exists in a
    # directory no command searches (and below it): the compiler reports a missing header, nothing is read for it
    if rng.random() < 0.5:
        e = rng.choice(desc["entries"])
        files["other/ghost.h"] = [mark()]
        cands["other/ghost.h"] = "unresolvable_include_same_name"
        files["other/sub/ghost.h"] = [mark()]
        cands["other/sub/ghost.h"] = "unresolvable_include_same_name"
        files[e["file"]] = list(files[e["file"]]) + [rng.choice(['#include "ghost.h"', "#include <ghost.h>", '#include "nosuch/ghost.h"',
                                                                  '#include "sub/ghost.h"'])]
        if posixpath.dirname(e["file"]) == "src" and files[e["file"]][-1] == '#include "sub/ghost.h"':
            files[e["file"]][-1] = '#include "ghost.h"'     # src/sub exists: keep the name unresolvable only by absence
    return cands


GHOST = "ghost.h"


def ref_reached(desc, k, mode="cwd"):
    """files the reference preprocessor reads for entry k (real relative paths), or None if it cannot finish"""
    try:
        r = G.ref_run(desc, k, mode)
    except RecursionError:
        return None, None
    t = G.Tree(desc)
    out = {t.real(desc["entries"][k]["file"])}
    for _, _, _, _, res in r["lookups"]:
        if res is not None:
            out.add(res)
    return out, r


def gcc_reads(root, desc, k):
    """files gcc reads for entry k according to `gcc -M -MG` (real paths relative to root); None if gcc complains"""
    e = desc["entries"][k]
    argv = [a for a in e["argv"][1:] if a not in ("-c", e["file"], "-O2")]
    cwd = os.path.normpath(os.path.join(str(root), e["directory"]))
    src = os.path.relpath(os.path.join(str(root), e["file"]), cwd)
    try:
        r = subprocess.run(["gcc", "-M", "-MG", "-undef", "-nostdinc", "-x", "c"] + argv + [src],
                           cwd=cwd, capture_output=True, text=True, timeout=30)
    except (OSError, subprocess.TimeoutExpired):
        return None
    if r.returncode or r.stderr.strip():
        return None
    text = r.stdout.replace("\\\n", " ")
    _, _, deps = text.partition(":")
    out = set()
    rootreal = os.path.realpath(str(root))
    for w in deps.split():
        p = os.path.realpath(os.path.join(cwd, w))
        if not os.path.isfile(p):
            if os.path.basename(w) == GHOST:
                continue           # -MG lists the planted unresolvable header as if it were generated in the cwd
            return None            # -MG lists a header it could not find: not a clean tree
        out.add(os.path.relpath(p, rootreal).replace(os.sep, "/"))
    return out


def attributed_real(root, real, nent):
    got = {k: set() for k in range(nent)}
    for f, rows in real["ok"].items():
        rf = os.path.relpath(os.path.realpath(f), root).replace(os.sep, "/")
        for _kind, _lines, plats in rows:
            for p in plats:
                got[int(p[1:])].add(rf)
    return got


def check_decoy_tree(ctx, drv, case, use_gcc=True, count=True):
    """case = {"stream": "decoy", "desc": …, "cands": {path: category}, "merged": bool, "origin": …}
    merged: all commands form ONE database / platform (else one platform per command)"""
    from harness.props import c04
    desc, cands = case["desc"], case.get("cands", {})
    nent = len(desc["entries"])
    groups = [list(range(nent))] if case.get("merged") else [[k] for k in range(nent)]
    out = {"origin": case.get("origin")}
    if c04.d33_case(case) or c04.both_kinds_case(case):
        ctx.dist["decoy-skip:other-known-finding(D33/F-C04-2)"] += 1
        out["skipped"] = "D33 / F-C04-2 placement (subject of C04)"
        return out
    with core.Scratch() as d:
        root = os.path.realpath(str(d))
        db = G.write_tree(root, desc)
        dbs = {}
        for g, ks in enumerate(groups):
            dbs[f"p{g}"] = os.path.join(root, f"db{g}.json")
            with open(dbs[f"p{g}"], "w") as fh:
                json.dump([db[k] for k in ks], fh)
        real = G.run_real(root, dbs, want_lookups=False)
        want_e, refs = {}, {}
        for k in range(nent):
            want_e[k], refs[k] = ref_reached(desc, k)
        # well-formed here: every include the reference reaches resolves, except the planted `ghost.h` ones
        wf = all(want_e[k] is not None and all(posixpath.basename(m[2]) == GHOST for m in refs[k]["missing"]) for k in range(nent))
        if wf and any(refs[k]["missing"] for k in range(nent)) and count:
            ctx.dist["decoy-tree:with-unresolvable-include"] += 1
        if count:
            ctx.count(key=f"decoy-tree:{'one-platform' if case.get('merged') else 'platform-per-command'}:commands={nent}")
        if not wf:
            ctx.dist["decoy-skip:not-wf"] += 1
            out["skipped"] = "reference preprocessor: missing header / recursion"
            return out
        if "exc" in real:
            out["implementation"] = real["exc"]
            ctx.violation(f"analysis of a well-formed tree with decoy files raises {real['exc']}", case)
            return out
        got = attributed_real(root, real, len(groups))
        allreach = set().union(*want_e.values())
        # a file without any code or directive line (empty, blank or comment lines only) has no node that could carry
        # an attribution: it is read by the compiler but "attributed" does not apply to it
        nodeless = {os.path.relpath(os.path.realpath(f), root).replace(os.sep, "/") for f, rows in real["ok"].items() if not rows}
        if nodeless & allreach:
            ctx.dist["decoy-tree:reached-file-without-nodes"] += 1
        want = {g: set().union(*[want_e[k] for k in ks]) - nodeless for g, ks in enumerate(groups)}
        decoys = {p: c for p, c in cands.items() if p not in allreach}
        out["implementation"] = {f"p{g}": sorted(got[g]) for g in want}
        out["reference"] = {f"p{g}": sorted(want[g]) for g in want}
        out["decoys"] = decoys
        known = {os.path.relpath(os.path.realpath(f), root).replace(os.sep, "/") for f in real["ok"]}
        if count:
            for c in sorted(set(decoys.values())):
                ctx.dist["decoy:" + c] += 1
            ctx.dist["decoy-files"] += len(decoys)
            ctx.dist["decoy-candidates-that-became-reached"] += len(cands) - len(decoys)
            ctx.dist["decoy-files-in-code-base"] += len([p for p in decoys if p in known])
            viaflag = sum(1 for k in range(nent) for f, ln, nm, form, res in refs[k]["lookups"]
                          if res is not None and form != "forced" and posixpath.dirname(res) != posixpath.dirname(f))
            ctx.dist["decoy-tree:headers-found-outside-includer-dir"] += viaflag
            if len(set(decoys.values())) >= 3 and viaflag:
                ctx.nontrivial.add("decoy:" + json.dumps([desc, bool(case.get("merged"))], sort_keys=True))

        def cmds(g):
            return "; ".join(" ".join(desc["entries"][k]["argv"]) for k in groups[g])

        # ---- implementation against the reference preprocessor
        for g in want:
            extra, missing = sorted(got[g] - want[g]), sorted(want[g] - got[g])
            if extra or missing:
                what = f"platform p{g} ({cmds(g)}): "
                if extra:
                    what += (f"attributed to files that no entry names and nothing they reach includes: "
                             f"{[(p, cands.get(p, 'regular file')) for p in extra][:4]}; ")
                if missing:
                    what += f"files the compiler reads for the platform's entries but without any attribution: {missing[:4]}; "
                what += f"the platform's translation units consist of {sorted(want[g])}"
                ctx.violation(what, case)
                break
        # ---- gcc -M
        if use_gcc:
            gcc_e = {}
            for k in range(nent):
                gcc_e[k] = gcc_reads(root, desc, k)
                ctx.dist["decoy:gcc-M-runs"] += 1
                if gcc_e[k] is None:
                    ctx.dist["decoy:gcc-M-not-clean"] += 1
            for g, ks in enumerate(groups):
                if any(gcc_e[k] is None for k in ks):
                    continue
                gm = set().union(*[gcc_e[k] for k in ks])
                out.setdefault("gcc_M", {})[f"p{g}"] = sorted(gm)
                gm = gm - nodeless
                if gm != want[g]:
                    ctx.dist["decoy:reference!=gcc-M"] += 1
                    if len(ctx.notes) < 6:
                        ctx.notes.append(f"decoy stream: reference preprocessor and gcc -M read different files on {case.get('origin')} "
                                         f"platform p{g}: {sorted(gm ^ want[g])[:4]}")
                    continue
                if gm != got[g]:
                    ctx.violation(f"platform p{g} ({cmds(g)}): gcc -M reads {sorted(gm)} for its entries; the analysis attributes the platform to "
                                  f"{sorted(got[g])} (extra {sorted(got[g] - gm)[:4]}, missing {sorted(gm - got[g])[:4]})", case)
                    break
        # ---- the Lean model: attributed set and roots
        if drv is not None:
            req = G.model_request(root, real, desc["links"])
            req["op"] = "reachinc"
            m = drv.ask(req)
            if "attributed" not in m:
                ctx.corr_break("reachinc", case, "ok", m)
                out["model"] = m
            else:
                mod = {g: {os.path.relpath(f, root).replace(os.sep, "/") for f in m["attributed"].get(f"p{g}", [])} for g in want}
                out["model"] = {f"p{g}": sorted(mod[g]) for g in want}
                out["model_roots"] = {p: [os.path.relpath(f, root) for f in v] for p, v in m["roots"].items()}
                for g in want:
                    if mod[g] != got[g]:
                        ctx.corr_break("reachinc", case, {f"p{g}": sorted(got[g])}, {f"p{g}": sorted(mod[g])})
                        break
                    # what the theorem says of the model, re-observed: nothing outside the reference's reach
                    if not (mod[g] <= want[g]) and len(ctx.notes) < 6:
                        ctx.notes.append(f"decoy stream: model attributes outside the reference's reach on {case.get('origin')}: {sorted(mod[g] - want[g])[:3]}")
    return out


def gen_case(rng, i):
    g = G.Gen(rng, sym=(i % 4 == 3), forced=True)
    desc = g.tree()
    cands = salt(rng, desc)
    for e in desc["entries"]:
        e["argv"] = G.argv_of(e, rng) if "argv" not in e else e["argv"]
    merged = len(desc["entries"]) > 1 and rng.random() < 0.5
    return {"stream": "decoy", "desc": desc, "cands": cands, "merged": merged, "origin": f"decoy:{i}"}
