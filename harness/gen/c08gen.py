"""Generator of code bases for C08 (isolation / composition of compile commands and platforms).

Builds on the vocabulary of `harness/gen/codebase.py` (same macro names, platform names,
condition shapes) but produces inputs in which the per-command state matters:

* shared headers that define / undefine / test macros, protected by include guards,
  `#pragma once` or nothing, nested includes, computed includes (`#include HDR`);
* the same header spelling resolved through different `-I` directories by different
  commands (include memo), `-include` files, `-D` sets that differ per command;
* function-like macros used in `#if` (token mutation in shared trees);
* compilers with several passes per command (`nvcc -gencode`, `icx -fsycl-targets`) and a
  user-defined compiler in `.cbi/config` with an `extend_match` default list (D32);
* headers outside the code base (sibling directory, unknown extension);
* dedicated streams for the two recorded findings:
  `lang`  — a non-code-base header included from C and from Fortran/asm sources (F-C08-1),
  `paste` — a computed include through a macro that stringifies and pastes the same
            parameter (F-C08-2).

Layout under the scratch directory: `cb/` = analysis root (cwd of the tools), `ext/` =
outside the code base, `var/` = analysis files and databases of the variants.
All randomness comes from `rng`.
"""
from __future__ import annotations

import json
import os

from harness.gen import codebase as cbgen

NAMES = cbgen.NAMES
PLATFORM_NAMES = cbgen.PLATFORM_NAMES

CBICONFIG = """[compiler.mycc]
options = ["-DMYCC"]

[[compiler.mycc.parser]]
flags = ["--arch"]
action = "extend_match"
pattern = 'v(\\d+)'
format = "arch$value"
dest = "passes"
default = ["arch1"]

[[compiler.mycc.passes]]
name = "arch1"
defines = ["ARCH=1"]

[[compiler.mycc.passes]]
name = "arch2"
defines = ["ARCH=2", "B=1"]

[[compiler.mycc.passes]]
name = "arch3"
defines = ["ARCH=3", "C"]
"""


def cond(rng, extra=()):
    names = NAMES + list(extra)
    n = rng.choice(names)
    m = rng.choice(names)
    return rng.choice([
        f"defined({n})", f"!defined({n})", f"{n}", f"{n} == 1", f"{n} && {m}", f"defined({n}) || defined({m})",
        f"{n} > 0 && !defined({m})", f"{n} + {m} >= 2", f"!{n}", "0", "1",
    ])


class Gen:
    def __init__(self, rng, stream="main"):
        self.rng = rng
        self.stream = stream
        self.texts = {}
        self.features = set()
        self.extra_names = []  # macros defined by headers / passes that sources may test

    # ---------------------------------------------------------------- bodies
    def body(self, depth, incs, budget, fl_ok=True):
        """lines: code, comments, defines, includes (from `incs`: ready-made include lines), conditionals"""
        rng = self.rng
        out = []
        for _ in range(rng.randint(1, 4)):
            if budget[0] <= 0:
                break
            budget[0] -= 1
            r = rng.random()
            if r < 0.30:
                out.append(f"int v{rng.randint(0, 9)};")
            elif r < 0.36:
                out.append(rng.choice(["// comment", "/* c */", "", "int w; // t", "int k = 1 + \\\n  2;"]))
            elif r < 0.52:
                n = rng.choice(NAMES)
                k = rng.random()
                if k < 0.5:
                    out.append(f"#define {n} {rng.randint(0, 2)}")
                elif k < 0.8:
                    out.append(f"#undef {n}")
                else:
                    out.append(f"#define {n} ({rng.choice(NAMES)} + 1)")
                    self.features.add("macro-in-macro")
            elif r < 0.60 and fl_ok:
                # function-like macro defined right before its use in #if
                f = rng.choice(["F", "G2"])
                a = rng.choice(NAMES)
                out.append(rng.choice([f"#define {f}(x) ((x) + {a})", f"#define {f}(x) ((x) * 2)", f"#define {f}(x) (x##1 + {a})"]))
                out.append(f"#ifdef {f}")
                out.append(f"#if {f}({rng.choice(NAMES)}) > {rng.randint(0, 2)}")
                out.append(f"int fl{rng.randint(0, 9)};")
                out.append("#endif")
                out.append("#endif")
                self.features.add("function-like")
            elif r < 0.80 and incs:
                out.append(rng.choice(incs))
            elif depth > 0:
                out.append(f"#if {cond(rng, self.extra_names)}")
                out += self.body(depth - 1, incs, budget, fl_ok)
                if rng.random() < 0.4:
                    out.append(f"#elif {cond(rng, self.extra_names)}")
                    out += self.body(depth - 1, incs, budget, fl_ok)
                if rng.random() < 0.5:
                    out.append("#else")
                    out += self.body(depth - 1, incs, budget, fl_ok)
                out.append("#endif")
            else:
                out.append(f"int z{rng.randint(0, 9)};")
        return out

    def protect(self, i, b):
        style = self.rng.random()
        if style < 0.4:
            self.features.add("include-guard")
            return [f"#ifndef G{i}_H", f"#define G{i}_H"] + b + ["#endif"]
        if style < 0.75:
            self.features.add("pragma-once")
            return ["#pragma once"] + b
        self.features.add("unguarded-header")
        return b

    # ---------------------------------------------------------------- main
    def build(self, nplat=None):
        rng = self.rng
        nplat = nplat if nplat is not None else rng.randint(1, 4)
        # ---- headers: later ones may be included by earlier ones (no cycles)
        hdirs = ["cb/include", "cb/src", "cb/include/deep"]
        nh = rng.randint(2, 4)
        headers = [os.path.join(rng.choice(hdirs), f"h{i}.{rng.choice(['h', 'hpp'])}") for i in range(nh)]
        # the same spelling in two directories, selected by -I
        two_cfg = rng.random() < 0.6
        if two_cfg:
            self.features.add("same-name-two-dirs")
        # a header outside the code base (C family here)
        ext_hdr = rng.random() < 0.4
        if ext_hdr:
            self.features.add("non-codebase-header")
        self.extra_names = ["CFG", "EXTV"] if (two_cfg or ext_hdr) else []

        def inc_lines(frm, cands):
            out = []
            for h in cands:
                rel = os.path.relpath(h, os.path.dirname(frm))
                out.append(f'#include "{rel}"')
                out.append(f"#include <{os.path.basename(h)}>")  # needs -I of its directory
            if two_cfg:
                out += ['#include "cfg.h"', "#include <cfg.h>"]
            if ext_hdr:
                out.append('#include "e0.h"')  # found through -I ../ext only
            return out

        for i in reversed(range(nh)):
            h = headers[i]
            b = self.body(2, inc_lines(h, headers[i + 1:]), [8])
            # a part that depends on the includer's macros, and a macro the includer can test afterwards
            n = rng.choice(NAMES)
            b += [f"#if {cond(rng)}", f"int h{i}_a;", "#else", f"int h{i}_b;", "#endif"]
            b.append(f"#define H{i}_SEEN {rng.randint(1, 2)}")
            if rng.random() < 0.3:
                b.append(f"#define {n} {rng.randint(0, 2)}")
            self.extra_names.append(f"H{i}_SEEN")
            self.texts[h] = self.protect(i, b)
        # an umbrella header: nothing but #include lines (no #define / #undef / #pragma of its own), so whatever it
        # contributes comes from the nested headers and depends on the including command's macros
        umbrella = rng.random() < 0.5
        if umbrella:
            self.features.add("umbrella-header")
            picks = rng.sample(headers, rng.randint(1, min(3, nh)))
            self.texts["cb/include/all.h"] = [f'#include "{os.path.relpath(h, "cb/include")}"' for h in picks]
        if two_cfg:
            self.texts["cb/include/cfg.h"] = self.protect(90, ["#define CFG 1", "int cfg_one;"] + self.body(1, [], [3], False))
            self.texts["cb/inc2/cfg.h"] = self.protect(91, ["#define CFG 2", "int cfg_two;", "#undef A"] + self.body(1, [], [3], False))
        if ext_hdr:
            self.texts["ext/e0.h"] = self.protect(92, ["#define EXTV 1", "int ext_line;"] + self.body(1, [], [3], False))
        # forced-include candidates
        self.texts["cb/include/pre.h"] = ["#define PRE 1", f"#define {rng.choice(NAMES)} 2", "int pre_line;"]
        self.extra_names.append("PRE")
        # computed includes
        computed = rng.random() < 0.5
        # ---- sources
        ns = rng.randint(2, 4)
        sources = []
        for i in range(ns):
            s = os.path.join(rng.choice(["cb/src", "cb", "cb/src/util"]), f"s{i}.{rng.choice(['c', 'cpp', 'cc'])}")
            sources.append(s)
            incs = inc_lines(s, headers)
            if umbrella:
                incs += [f'#include "{os.path.relpath("cb/include/all.h", os.path.dirname(s))}"'] * 2
            if computed:
                incs.append("#include HDR")
                self.features.add("computed-include")
            b = self.body(3, incs, [12])
            if rng.random() < 0.85:
                # the usual shape of a source file: includes first, then code that tests what they defined
                head = []
                if umbrella and rng.random() < 0.7:
                    head.append(f'#include "{os.path.relpath("cb/include/all.h", os.path.dirname(s))}"')
                    hi0 = rng.randrange(nh)
                    head += [f"#ifdef H{hi0}_SEEN", f"int seen_all{hi0};", "#else", f"int unseen_all{hi0};", "#endif"]
                for hi in rng.sample(range(nh), rng.randint(1, min(2, nh))):
                    if rng.random() < 0.3:
                        head.append(f"#define {rng.choice(NAMES)} {rng.randint(0, 2)}")
                    head.append(f'#include "{os.path.relpath(headers[hi], os.path.dirname(s))}"')
                    if rng.random() < 0.7:
                        head += [f"#ifdef H{hi}_SEEN", f"int seen{hi};", "#else", f"int unseen{hi};", "#endif"]
                b = head + b
            if computed and rng.random() < 0.93:
                tgt = rng.choice(headers)
                b = [f"#ifndef HDR", f'#define HDR "{os.path.relpath(tgt, os.path.dirname(s))}"', "#endif"] + b
            if rng.random() < 0.3:
                b += ["#ifdef __CUDA_ARCH__", "#if __CUDA_ARCH__ >= 800", "int sm80;", "#else", "int sm_old;", "#endif", "#endif"]
            if rng.random() < 0.3:
                b += ["#if ARCH == 2", "int arch_two;", "#elif ARCH == 3", "int arch_three;", "#else", "int arch_other;", "#endif"]
            self.texts[s] = b
        bad = rng.random() < 0.06
        if bad:
            s0 = sources[0]
            self.texts[s0] = self.texts[s0] + ["#ifdef BAD", "#if 1 +", "int never;", "#endif", "#endif"]
            self.features.add("failing-command")
        if rng.random() < 0.5:
            self.texts["cb/src/unused.c"] = ["int unused;", "// x", "int unused2;"]
        # ---- platforms
        use_mycc = rng.random() < 0.35
        cbiconfig = CBICONFIG if use_mycc else None
        platforms = {}
        idirs = ["include", "src", "include/deep"] + (["inc2"] if two_cfg else []) + (["../ext"] if ext_hdr else [])
        for k in range(nplat):
            cmds = []
            for s in sources:
                if rng.random() < 0.8 or not cmds and s == sources[-1]:
                    for _ in range(1 if rng.random() < 0.85 else 2):  # the same file may be compiled twice
                        cmds.append(self.command(s, idirs, two_cfg, computed, headers, use_mycc, bad))
            platforms[PLATFORM_NAMES[k]] = cmds
        return dict(texts={p: "\n".join(b) + ("\n" if b else "") for p, b in self.texts.items()},
                    platforms=platforms, cbiconfig=cbiconfig, features=sorted(self.features), stream=self.stream)

    def command(self, s, idirs, two_cfg, computed, headers, use_mycc, bad):
        rng = self.rng
        rel = os.path.relpath(s, "cb")
        defs = []
        for n in NAMES:
            if rng.random() < 0.45:
                defs.append(f"-D{n}={rng.randint(0, 2)}" if rng.random() < 0.7 else f"-D{n}")
        if rng.random() < 0.15:
            defs.append("-DG2(x)=((x)+1)")
            self.features.add("function-like-D")
        if computed and rng.random() < 0.4:
            tgt = rng.choice(headers)
            defs.append(f'-DHDR="{os.path.relpath(tgt, os.path.dirname(s))}"')
        if bad and rng.random() < 0.3:
            defs.append("-DBAD")
        incs = []
        dirs = idirs[:]
        rng.shuffle(dirs)
        prev = getattr(self, "_last_dirs", None)
        if prev and len(prev) >= 2 and rng.random() < 0.3:
            # the directories of the previous command, searched in another order (what one command resolved must not be
            # served to a command that searches the same directories differently)
            chosen = prev[:]
            rng.shuffle(chosen)
            self.features.add("same-dirs-other-order")
            for d in chosen:
                incs += ["-I", d] if rng.random() < 0.7 else [f"-I{d}"]
        else:
            chosen = []
            for d in dirs:
                if rng.random() < 0.5:
                    chosen.append(d)
                    flag = rng.choice(["-I", "-I", "-isystem"])
                    incs += [flag, d] if (flag == "-isystem" or rng.random() < 0.7) else [f"-I{d}"]
        self._last_dirs = chosen
        forced = []
        if rng.random() < 0.2:
            forced = ["-include", os.path.relpath("cb/include/pre.h", os.path.dirname(s))]
            self.features.add("-include")
        r = rng.random()
        if use_mycc and r < 0.6:
            cc = ["mycc"] + rng.choice([[], ["--arch", "v2"], ["--arch", "v3"], ["--arch", "v2", "--arch", "v3"]])
            self.features.add("extend_match-default")
        elif r < 0.12:
            cc = ["nvcc"] + rng.choice([[], ["-gencode", "arch=compute_80,code=sm_80"], ["--gpu-architecture", "sm_75"]])
            self.features.add("multi-pass")
        elif r < 0.2:
            cc = [rng.choice(["icx", "icpx"])] + rng.choice([[], ["-fsycl"], ["-fsycl", "-fsycl-targets=spir64,spir64_gen"], ["-fopenmp"]])
            self.features.add("multi-pass")
        else:
            cc = [rng.choice(["gcc", "g++", "clang", "/usr/bin/cc"])] + (["-fopenmp"] if rng.random() < 0.1 else [])
        return {"file": rel, "arguments": cc + defs + incs + forced + ["-c", rel]}


def gen_main(rng, nplat=None):
    return Gen(rng, "main").build(nplat)


def gen_lang(rng):
    """F-C08-1: a file outside the code base, included from translation units of different
    language families; its parse (C comment vs Fortran text) is fixed by the first includer."""
    names = PLATFORM_NAMES[: rng.randint(1, 3)]
    foreign = rng.choice(["ext/common.def", "cb/common.def", "ext/common.h"])
    inc = os.path.basename(foreign)
    mac = rng.choice(["X", "A"])
    texts = {
        foreign: rng.choice([f"/*\n#define {mac} 1\n*/\n", f"/* start\n#define {mac} 1\nend */\nint shared;\n"]),
        "cb/a.F90": f'#include "{inc}"\nprogram p\n#ifdef {mac}\n  x = 1\n#endif\nend program\n',
        "cb/b.c": f'#include "{inc}"\n#ifdef {mac}\nint x;\n#else\nint y;\n#endif\n',
        "cb/c.cpp": f'int c0;\n#include "{inc}"\n#if defined({mac})\nint cx;\n#endif\n',
    }
    if rng.random() < 0.4:
        texts["cb/d.S"] = f'#include "{inc}"\n#ifdef {mac}\n  nop\n#endif\n'
    features = ["foreign-header-two-languages"]
    if foreign.endswith(".h") and rng.random() < 0.5:
        # the same header INSIDE the code base: it is pre-parsed by its extension, so its language
        # (hence what every includer sees) must not depend on who includes it first — no finding here
        texts["cb/common.h"] = texts.pop(foreign)
        foreign = "cb/common.h"
        features = ["code-base-header-two-languages"]
    if rng.random() < 0.5:
        # the header includes a second file that is not pre-parsed either: it inherits the class the
        # header was cached with
        nested = os.path.join(os.path.dirname(foreign), "nested.def")
        texts[nested] = "/*\n#define N1 1\n*/\nint nested_shared;\n"
        texts[foreign] += '#include "nested.def"\n#ifdef N1\nint n_on;\n#else\nint n_off;\n#endif\n'
        features.append("foreign-header-nested-include")
    srcs = [s for s in texts if s.startswith("cb/") and os.path.splitext(s)[1] in (".F90", ".c", ".cpp", ".S")]
    platforms = {}
    for n in names:
        k = rng.randint(1, len(srcs))
        chosen = rng.sample(srcs, k)
        platforms[n] = [{"file": os.path.relpath(s, "cb"),
                         "arguments": ["gcc", "-I", "../ext", "-I", ".", "-c", os.path.relpath(s, "cb")]} for s in chosen]
    return dict(texts=texts, platforms=platforms, cbiconfig=None, features=features, stream="lang",
                foreign=foreign)


def gen_paste(rng):
    """F-C08-2: `#include MK(h1.h,x)` with `#define MK(a,b) #a a##b`: the paste mutates the
    white-space flag of the argument's first token inside the shared parse tree, so the second
    command that evaluates the directive stringifies ` h1.h` and does not find the header."""
    names = PLATFORM_NAMES[: rng.randint(1, 3)]
    sp = rng.choice([" ", "  "])
    texts = {
        "cb/h1.h": "int in_h1;\n#define FROM_H1 1\n",
        "cb/common.h": f"#define MK(a,b) #a{sp}a##b\n#include MK(h1.h,x)\n#ifdef FROM_H1\nint yes;\n#else\nint no;\n#endif\n",
        "cb/a.c": '#include "common.h"\nint a;\n',
        "cb/b.c": 'int b0;\n#include "common.h"\nint b;\n',
        "cb/c.cc": '#include "common.h"\n#ifdef FROM_H1\nint c1;\n#endif\n',
    }
    srcs = ["a.c", "b.c", "c.cc"]
    platforms = {}
    for n in names:
        chosen = rng.sample(srcs, rng.randint(1, 3))
        platforms[n] = [{"file": s, "arguments": ["gcc", "-c", s]} for s in chosen]
    return dict(texts=texts, platforms=platforms, cbiconfig=None, features=["stringify-and-paste-computed-include"],
                stream="paste")


# ------------------------------------------------------------------ writing
def write(d, desc):
    """create cb/, ext/ under the scratch directory d (realpath'ed by the caller)"""
    d = str(d)
    for p, text in desc["texts"].items():
        full = os.path.join(d, p)
        os.makedirs(os.path.dirname(full), exist_ok=True)
        with open(full, "w") as f:
            f.write(text)
    os.makedirs(os.path.join(d, "cb"), exist_ok=True)
    os.makedirs(os.path.join(d, "ext"), exist_ok=True)
    os.makedirs(os.path.join(d, "var"), exist_ok=True)
    if desc.get("cbiconfig"):
        os.makedirs(os.path.join(d, "cb", ".cbi"), exist_ok=True)
        with open(os.path.join(d, "cb", ".cbi", "config"), "w") as f:
            f.write(desc["cbiconfig"])


def db_entry(c, root):
    """one command of a description -> the entry written into the compilation database.
    Default (no "directory" key in the description): `directory` = the absolute analysis root, as CMake
    writes it.  Spellings used by the `tu` stream (harness/gen/c08tu.py): `"directory": None` -> the entry
    has NO directory key; a relative string is kept literally (load_database reads it relative to the
    root); the prefix `$ROOT` in directory / file / arguments stands for the absolute root."""
    def sub(x):
        return x.replace("$ROOT", root) if isinstance(x, str) and "$ROOT" in x else x

    e = {k: v for k, v in c.items() if k != "directory"}
    e["file"] = sub(c["file"])
    e["arguments"] = [sub(a) for a in c["arguments"]]
    if "directory" not in c:
        e["directory"] = root
    elif c["directory"] is not None:
        e["directory"] = sub(c["directory"])
    return e


def write_variant(d, tag, plat_cmds, in_root=False):
    """analysis file + one database per platform for the ordered mapping plat_cmds
    ([(platform, [command, ...]), ...]).  Returns the path of the analysis file.
    in_root=True writes `analysis.toml` / `<p>.json` into cb/ (for the real CLIs)."""
    d = str(d)
    root = os.path.join(d, "cb")
    base = root if in_root else os.path.join(d, "var")
    toml = os.path.join(base, "analysis.toml" if in_root else f"{tag}.toml")
    with open(toml, "w") as f:
        for name, cmds in plat_cmds:
            db = os.path.join(base, f"{name}.json" if in_root else f"{tag}_{name}.json")
            with open(db, "w") as g:
                json.dump([db_entry(c, root) for c in cmds], g)
            f.write(f'[platform.{name}]\ncommands = "{db}"\n\n')
    return toml
