import CbiVerif.Spec.Regex
/-! helper lemmas for `Props/C12Regex.lean` -/
namespace CbiVerif.Regex

/-! ## soundness of the back-tracking matcher -/

theorem starLoop_sound {R : Type} (r : Re) (body : List Char → Caps → Cont R → Option R)
    (hb : ∀ s caps (k : Cont R) x, body s caps k = some x → ∃ s' caps', Match r s s' ∧ k s' caps' = some x) :
    ∀ n s caps (k : Cont R) x, starLoop body n s caps k = some x →
      ∃ s' caps', Match (.star r) s s' ∧ k s' caps' = some x := by
  intro n
  induction n with
  | zero => intro s caps k x h; exact ⟨s, caps, .star0 r s, h⟩
  | succ n ih =>
    intro s caps k x h
    simp only [starLoop] at h
    cases hbd : body s caps (fun s' caps' => if s'.length < s.length then starLoop body n s' caps' k else none) with
    | none => rw [hbd] at h; exact ⟨s, caps, .star0 r s, h⟩
    | some y =>
      rw [hbd] at h
      have hxy : y = x := by simpa using h
      subst hxy
      obtain ⟨s1, c1, hm, hk⟩ := hb _ _ _ _ hbd
      by_cases hl : s1.length < s.length
      · simp only [hl, if_true] at hk
        obtain ⟨s2, c2, hm2, hk2⟩ := ih _ _ _ _ hk
        exact ⟨s2, c2, .starS hm hm2, hk2⟩
      · simp [hl] at hk

theorem matchRe_sound {R : Type} (r : Re) : ∀ (s : List Char) (caps : Caps) (k : Cont R) (x : R),
    matchRe r s caps k = some x → ∃ s' caps', Match r s s' ∧ k s' caps' = some x := by
  induction r with
  | empty => intro s caps k x h; exact ⟨s, caps, .empty s, by simpa [matchRe] using h⟩
  | chr c =>
    intro s caps k x h
    cases s with
    | nil => simp [matchRe] at h
    | cons a t =>
      simp only [matchRe] at h
      by_cases hc : (a == c) = true
      · simp only [hc, if_true] at h
        have : a = c := by simpa using hc
        subst this
        exact ⟨t, caps, .chr a t, h⟩
      · simp [hc] at h
  | any =>
    intro s caps k x h
    cases s with
    | nil => simp [matchRe] at h
    | cons a t =>
      simp only [matchRe] at h
      by_cases hc : (a != '\n') = true
      · simp only [hc, if_true] at h
        exact ⟨t, caps, .any a t (by simpa using hc), h⟩
      · simp [hc] at h
  | cls neg items =>
    intro s caps k x h
    cases s with
    | nil => simp [matchRe] at h
    | cons a t =>
      simp only [matchRe] at h
      by_cases hc : classTest neg items a = true
      · simp only [hc, if_true] at h
        exact ⟨t, caps, .cls neg items a t hc, h⟩
      · simp [hc] at h
  | seq a b iha ihb =>
    intro s caps k x h
    simp only [matchRe] at h
    obtain ⟨s1, c1, hm1, h1⟩ := iha _ _ _ _ h
    obtain ⟨s2, c2, hm2, h2⟩ := ihb _ _ _ _ h1
    exact ⟨s2, c2, .seq hm1 hm2, h2⟩
  | alt a b iha ihb =>
    intro s caps k x h
    simp only [matchRe] at h
    cases ha : matchRe a s caps k with
    | some y =>
      rw [ha] at h
      obtain ⟨s1, c1, hm1, h1⟩ := iha _ _ _ _ ha
      exact ⟨s1, c1, .altL hm1, by rw [h1]; simpa using h⟩
    | none =>
      rw [ha] at h
      obtain ⟨s1, c1, hm1, h1⟩ := ihb _ _ _ _ h
      exact ⟨s1, c1, .altR hm1, h1⟩
  | star r ih =>
    intro s caps k x h
    simp only [matchRe] at h
    exact starLoop_sound r _ (fun s caps k x h => ih s caps k x h) _ _ _ _ _ h
  | plus r ih =>
    intro s caps k x h
    simp only [matchRe] at h
    obtain ⟨s1, c1, hm1, h1⟩ := ih _ _ _ _ h
    obtain ⟨s2, c2, hm2, h2⟩ := starLoop_sound r _ (fun s caps k x h => ih s caps k x h) _ _ _ _ _ h1
    exact ⟨s2, c2, .plus hm1 hm2, h2⟩
  | opt r ih =>
    intro s caps k x h
    simp only [matchRe] at h
    cases ha : matchRe r s caps k with
    | some y =>
      rw [ha] at h
      obtain ⟨s1, c1, hm1, h1⟩ := ih _ _ _ _ ha
      exact ⟨s1, c1, .optS hm1, by rw [h1]; simpa using h⟩
    | none =>
      rw [ha] at h
      exact ⟨s, caps, .opt0 r s, h⟩
  | group i r ih =>
    intro s caps k x h
    simp only [matchRe] at h
    obtain ⟨s1, c1, hm1, h1⟩ := ih _ _ _ _ h
    exact ⟨s1, _, .group hm1, h1⟩
  | eol =>
    intro s caps k x h
    simp only [matchRe] at h
    by_cases hc : (s.isEmpty || s == ['\n']) = true
    · simp only [hc, if_true] at h
      refine ⟨s, caps, .eol s ?_, h⟩
      cases s with
      | nil => exact Or.inl rfl
      | cons a t => right; simpa using hc
    · simp [hc] at h

/-- what a match leaves unread is a suffix of the text -/
theorem Match.suffix {r : Re} {s s' : List Char} (h : Match r s s') : ∃ w, s = w ++ s' := by
  induction h with
  | empty s => exact ⟨[], rfl⟩
  | chr c s => exact ⟨[c], rfl⟩
  | any c s _ => exact ⟨[c], rfl⟩
  | cls _ _ c s _ => exact ⟨[c], rfl⟩
  | seq _ _ ih1 ih2 => obtain ⟨w1, h1⟩ := ih1; obtain ⟨w2, h2⟩ := ih2; exact ⟨w1 ++ w2, by rw [h1, h2, List.append_assoc]⟩
  | altL _ ih => exact ih
  | altR _ ih => exact ih
  | star0 r s => exact ⟨[], rfl⟩
  | starS _ _ ih1 ih2 => obtain ⟨w1, h1⟩ := ih1; obtain ⟨w2, h2⟩ := ih2; exact ⟨w1 ++ w2, by rw [h1, h2, List.append_assoc]⟩
  | plus _ _ ih1 ih2 => obtain ⟨w1, h1⟩ := ih1; obtain ⟨w2, h2⟩ := ih2; exact ⟨w1 ++ w2, by rw [h1, h2, List.append_assoc]⟩
  | opt0 r s => exact ⟨[], rfl⟩
  | optS _ ih => exact ih
  | group _ ih => exact ih
  | eol s _ => exact ⟨[], rfl⟩

theorem matchAt_sound (r : Re) (adv : Bool) (s s' : List Char) (caps : Caps) (h : matchAt r adv s = some (s', caps)) :
    Match r s s' ∧ (adv = true → s'.length ≠ s.length) := by
  obtain ⟨s1, c1, hm, hk⟩ := matchRe_sound r s [] (fin adv s) (s', caps) h
  simp only [fin] at hk
  by_cases hc : (adv && s1.length == s.length) = true
  · simp [hc] at hk
  · simp only [hc] at hk
    have h2 : s1 = s' := by
      have := Option.some.inj hk
      exact congrArg Prod.fst this
    subst h2
    refine ⟨hm, ?_⟩
    intro ha hl
    apply hc
    simp [ha, hl]

/-! ## the scan -/

theorem search_sound (r : Re) : ∀ (s : List Char) (off : Nat) (adv : Bool) st sAt rest caps,
    search r off s adv = some (st, sAt, rest, caps) →
    ∃ k, st = off + k ∧ k ≤ s.length ∧ sAt = s.drop k ∧ Match r sAt rest := by
  intro s
  induction s with
  | nil =>
    intro off adv st sAt rest caps h
    simp only [search] at h
    cases hm : matchAt r adv [] with
    | none => simp [hm] at h
    | some y =>
      obtain ⟨s', c'⟩ := y
      simp only [hm] at h
      have h := Option.some.inj h
      simp only [Prod.mk.injEq] at h
      obtain ⟨h1, h2, h3, h4⟩ := h
      subst h1 h2 h3 h4
      exact ⟨0, rfl, Nat.le_refl _, rfl, (matchAt_sound r adv _ _ _ hm).1⟩
  | cons a t ih =>
    intro off adv st sAt rest caps h
    simp only [search] at h
    cases hm : matchAt r adv (a :: t) with
    | none =>
      simp only [hm] at h
      obtain ⟨k, hk1, hk2, hk3, hk4⟩ := ih _ _ _ _ _ _ h
      exact ⟨k + 1, by omega, by simp; omega, by simpa using hk3, hk4⟩
    | some y =>
      obtain ⟨s', c'⟩ := y
      simp only [hm] at h
      have h := Option.some.inj h
      simp only [Prod.mk.injEq] at h
      obtain ⟨h1, h2, h3, h4⟩ := h
      subst h1 h2 h3 h4
      exact ⟨0, rfl, Nat.zero_le _, rfl, (matchAt_sound r adv _ _ _ hm).1⟩

/-- every hit of the scan, relative to the position the scan started from -/
theorem scan_sound (r : Re) : ∀ (fuel off : Nat) (s : List Char) (adv : Bool) (h : Hit), h ∈ scan r fuel off s adv →
    ∃ k, h.start = off + k ∧ k + h.text.length ≤ s.length ∧ h.text = (s.drop k).take h.text.length ∧
      Match r (s.drop k) (s.drop (k + h.text.length)) := by
  intro fuel
  induction fuel with
  | zero => intro off s adv h hh; simp [scan] at hh
  | succ fuel ih =>
    intro off s adv h hh
    simp only [scan] at hh
    cases hs : search r off s adv with
    | none => simp [hs] at hh
    | some y =>
      obtain ⟨st, sAt, rest, caps⟩ := y
      simp only [hs] at hh
      obtain ⟨k, hk1, hk2, hk3, hk4⟩ := search_sound r s off adv st sAt rest caps hs
      obtain ⟨w, hw⟩ := hk4.suffix
      have hlen : sAt.length - rest.length = w.length := by rw [hw]; simp
      have htake : sAt.take (sAt.length - rest.length) = w := by rw [hlen, hw]; simp
      have hdrop : s.drop (k + w.length) = rest := by
        rw [← List.drop_drop, ← hk3, hw]; simp
      have hkl : k + w.length ≤ s.length := by
        have : sAt.length = s.length - k := by rw [hk3]; simp
        rw [hw] at this; simp at this; omega
      rcases List.mem_cons.mp hh with heq | htl
      · subst heq
        simp only [htake]
        refine ⟨k, hk1, hkl, ?_, ?_⟩
        · rw [← hk3, hw]; simp
        · rw [hdrop, ← hk3]; exact hk4
      · obtain ⟨k', h1, h2, h3, h4⟩ := ih _ _ _ _ htl
        rw [hlen] at h1
        have hrl : rest.length = s.length - (k + w.length) := by rw [← hdrop]; simp
        refine ⟨k + w.length + k', by omega, by omega, ?_, ?_⟩
        · rw [← List.drop_drop, hdrop]; exact h3
        · have e1 : s.drop (k + w.length + k') = rest.drop k' := by rw [← List.drop_drop, hdrop]
          have e2 : s.drop (k + w.length + k' + h.text.length) = rest.drop (k' + h.text.length) := by
            rw [Nat.add_assoc, ← List.drop_drop, hdrop]
          rw [e1, e2]; exact h4

theorem scan_ordered (r : Re) : ∀ (fuel off : Nat) (s : List Char) (adv : Bool),
    List.Pairwise (fun a b : Hit => a.start + a.text.length ≤ b.start) (scan r fuel off s adv) := by
  intro fuel
  induction fuel with
  | zero => intro off s adv; simp [scan]
  | succ fuel ih =>
    intro off s adv
    simp only [scan]
    cases hs : search r off s adv with
    | none => simp
    | some y =>
      obtain ⟨st, sAt, rest, caps⟩ := y
      simp only []
      refine List.Pairwise.cons ?_ (ih _ _ _)
      intro b hb
      obtain ⟨k', h1, _, _, _⟩ := scan_sound r _ _ _ _ b hb
      obtain ⟨k, hk1, hk2, hk3, hk4⟩ := search_sound r s off adv st sAt rest caps hs
      obtain ⟨w, hw⟩ := hk4.suffix
      have hlen : sAt.length - rest.length = w.length := by rw [hw]; simp
      have htake : sAt.take (sAt.length - rest.length) = w := by rw [hlen, hw]; simp
      simp only [htake]
      rw [hlen] at h1
      omega

/-! ## literal patterns and scans given by a "what starts here" function -/

theorem stripPrefix_eq : ∀ (p s rest : List Char), stripPrefix p s = some rest → s = p ++ rest := by
  intro p
  induction p with
  | nil => intro s rest h; simp [stripPrefix] at h; simp [h]
  | cons a p ih =>
    intro s rest h
    cases s with
    | nil => simp [stripPrefix] at h
    | cons c cs =>
      simp only [stripPrefix] at h
      by_cases hc : (c == a) = true
      · simp only [hc, if_true] at h
        have : c = a := by simpa using hc
        subst this
        rw [ih _ _ h]; rfl
      · simp [hc] at h

theorem matchRe_lit {R : Type} : ∀ (p s : List Char) (caps : Caps) (k : Cont R),
    matchRe (lit p) s caps k = (match stripPrefix p s with | some rest => k rest caps | none => none) := by
  intro p
  induction p with
  | nil => intro s caps k; simp [lit, seqOf, matchRe, stripPrefix]
  | cons a p ih =>
    intro s caps k
    cases p with
    | nil =>
      cases s with
      | nil => simp [lit, seqOf, matchRe, stripPrefix]
      | cons c cs =>
        by_cases hc : (c == a) = true <;> simp [lit, seqOf, matchRe, stripPrefix, hc]
    | cons b p =>
      have ih' := ih
      simp only [lit, List.map] at ih' ⊢
      simp only [seqOf, matchRe]
      cases s with
      | nil => simp [stripPrefix]
      | cons c cs =>
        by_cases hc : (c == a) = true
        · simp only [hc, if_true, stripPrefix]
          exact ih' cs caps k
        · simp [stripPrefix, hc]

theorem search_congr (r : Re) (at_ : List Char → Option (List Char × Caps))
    (h : ∀ adv s, matchAt r adv s = at_ s) : ∀ (s : List Char) (off : Nat) (adv : Bool),
    search r off s adv = searchWith at_ off s := by
  intro s
  induction s with
  | nil => intro off adv; simp only [search, searchWith, h]
  | cons a t ih => intro off adv; simp only [search, searchWith, h, ih]

theorem scan_congr (r : Re) (at_ : List Char → Option (List Char × Caps))
    (h : ∀ adv s, matchAt r adv s = at_ s) : ∀ (fuel off : Nat) (s : List Char) (adv : Bool),
    scan r fuel off s adv = scanWith at_ fuel off s := by
  intro fuel
  induction fuel with
  | zero => intro off s adv; rfl
  | succ fuel ih =>
    intro off s adv
    simp only [scan, scanWith, search_congr r at_ h]
    cases searchWith at_ off s with
    | none => rfl
    | some y => obtain ⟨st, sAt, rest, caps⟩ := y; simp only [ih]

theorem matchAt_lit (p : List Char) (hp : p ≠ []) (adv : Bool) (s : List Char) :
    matchAt (lit p) adv s = (stripPrefix p s).map fun rest => (rest, []) := by
  simp only [matchAt, matchRe_lit]
  cases hs : stripPrefix p s with
  | none => rfl
  | some rest =>
    have := stripPrefix_eq p s rest hs
    have hl : rest.length ≠ s.length := by
      rw [this]; simp
      cases p with
      | nil => exact absurd rfl hp
      | cons a p => simp
    simp [fin, hl]

/-! ## greedy repetition of a one-character class -/

theorem starLoop_cls {R : Type} (neg : Bool) (items : List CItem) : ∀ (n : Nat) (s : List Char) (caps : Caps) (k : Cont R) (x : R),
    s.length ≤ n → k (s.dropWhile (classTest neg items)) caps = some x →
    starLoop (fun s0 c0 k0 => matchRe (.cls neg items) s0 c0 k0) n s caps k = some x := by
  intro n
  induction n with
  | zero =>
    intro s caps k x hl hk
    have : s = [] := List.eq_nil_of_length_eq_zero (by omega)
    subst this
    simpa [starLoop] using hk
  | succ n ih =>
    intro s caps k x hl hk
    cases s with
    | nil => simpa [starLoop, matchRe] using hk
    | cons c t =>
      by_cases hc : classTest neg items c = true
      · have hk' : k (t.dropWhile (classTest neg items)) caps = some x := by simpa [List.dropWhile, hc] using hk
        have h2 := ih t caps k x (by simp at hl; omega) hk'
        simp only [matchRe] at h2
        simp [starLoop, matchRe, hc, h2]
      · have hk' : k (c :: t) caps = some x := by simpa [List.dropWhile, hc] using hk
        simp [starLoop, matchRe, hc, hk']

/-! ## one-step equations (to rewrite without unfolding the matcher under binders) -/

theorem matchRe_seq {R : Type} (a b : Re) (s : List Char) (caps : Caps) (k : Cont R) :
    matchRe (.seq a b) s caps k = matchRe a s caps (fun s1 c1 => matchRe b s1 c1 k) := by simp only [matchRe]
theorem matchRe_alt {R : Type} (a b : Re) (s : List Char) (caps : Caps) (k : Cont R) :
    matchRe (.alt a b) s caps k = (match matchRe a s caps k with | some x => some x | none => matchRe b s caps k) := by
  cases h : matchRe a s caps k <;> simp [matchRe, h]
theorem matchRe_group {R : Type} (i : Nat) (r : Re) (s : List Char) (caps : Caps) (k : Cont R) :
    matchRe (.group i r) s caps k = matchRe r s caps (fun s1 c1 => k s1 ((i, s.take (s.length - s1.length)) :: c1)) := by
  simp only [matchRe]
theorem matchRe_plus {R : Type} (r : Re) (s : List Char) (caps : Caps) (k : Cont R) :
    matchRe (.plus r) s caps k =
      matchRe r s caps (fun s1 c1 => starLoop (fun s0 c0 k0 => matchRe r s0 c0 k0) s1.length s1 c1 k) := by
  simp only [matchRe]
theorem matchRe_cls_cons {R : Type} (neg : Bool) (items : List CItem) (c : Char) (t : List Char) (caps : Caps) (k : Cont R) :
    matchRe (.cls neg items) (c :: t) caps k = if classTest neg items c then k t caps else none := by
  simp only [matchRe]
theorem matchRe_cls_nil {R : Type} (neg : Bool) (items : List CItem) (caps : Caps) (k : Cont R) :
    matchRe (.cls neg items) [] caps k = none := by
  simp only [matchRe]

theorem dropWhile_length_le (p : Char → Bool) : ∀ (s : List Char), (s.dropWhile p).length ≤ s.length := by
  intro s
  induction s with
  | nil => simp
  | cons a t ih =>
    by_cases h : p a = true
    · simp only [List.dropWhile, h, List.length_cons]; omega
    · simp [List.dropWhile, h]

theorem take_sub_dropWhile (p : Char → Bool) : ∀ (s : List Char), s.take (s.length - (s.dropWhile p).length) = s.takeWhile p := by
  intro s
  induction s with
  | nil => rfl
  | cons a t ih =>
    by_cases h : p a = true
    · have hl := dropWhile_length_le p t
      simp only [List.dropWhile, List.takeWhile, h, List.length_cons]
      rw [show t.length + 1 - (t.dropWhile p).length = (t.length - (t.dropWhile p).length) + 1 by omega]
      simp [ih]
    · simp [List.dropWhile, List.takeWhile, h]

/-- `(C+)` for a character class `C` at a text that starts with a member: the group takes the whole run
    (greedy) as soon as the continuation accepts that -/
theorem group_plus_cls {R : Type} (i : Nat) (neg : Bool) (items : List CItem) (c : Char) (t : List Char) (caps : Caps)
    (k : Cont R) (x : R) (hc : classTest neg items c = true)
    (hk : k (t.dropWhile (classTest neg items)) ((i, c :: t.takeWhile (classTest neg items)) :: caps) = some x) :
    matchRe (.group i (.plus (.cls neg items))) (c :: t) caps k = some x := by
  simp only [matchRe_group, matchRe_plus, matchRe_cls_cons, hc, if_true]
  apply starLoop_cls _ _ _ _ _ _ _ (Nat.le_refl _)
  have hl := dropWhile_length_le (classTest neg items) t
  have h1 := take_sub_dropWhile (classTest neg items) t
  have : (c :: t).take ((c :: t).length - (t.dropWhile (classTest neg items)).length) = c :: t.takeWhile (classTest neg items) := by
    simp only [List.length_cons]
    rw [show t.length + 1 - (t.dropWhile (classTest neg items)).length = (t.length - (t.dropWhile (classTest neg items)).length) + 1 by omega]
    simp [h1]
  rw [this]
  exact hk

theorem group_plus_cls_none {R : Type} (i : Nat) (neg : Bool) (items : List CItem) (s : List Char) (caps : Caps) (k : Cont R)
    (h : match s with | [] => True | c :: _ => classTest neg items c = false) :
    matchRe (.group i (.plus (.cls neg items))) s caps k = none := by
  cases s with
  | nil => simp only [matchRe_group, matchRe_plus, matchRe_cls_nil]
  | cons c t =>
    simp only at h
    simp [matchRe_group, matchRe_plus, matchRe_cls_cons, h]

end CbiVerif.Regex
