import CbiVerif.Model.Argparse
/-! C11 — `argparse.ArgumentParser.parse_known_args` (CPython 3.12.1) **as written**, for the generated
option table: the model of `Model/Argparse.lean` replays the consume loop left to right and observes the
four value lists only; this file follows the source function by function and observes everything
`config.ArgumentParser.parse_args` gets back from the call:

* `tokenize`            = the up-front pass of `_parse_known_args`: `_parse_optional` on every argument
                          (`Argparse.classify`, shared with the left-to-right model), the pattern string of
                          `'O'` / `'A'` / `'-'` (everything after the first `--` is `'A'`), `option_string_indices`;
                          an ambiguous prefix calls `parser.error()` here, before any action is taken;
* `matchArgument`       = `_match_argument(action, pattern)` for an option: `(A)` for `nargs=None`, `(A?)` for
                          `nargs='?'` (`--` is not allowed in an option's arguments);
* `consumeOptional`     = `consume_optional`: no action -> the string goes to `extras`; explicit argument
                          (`-DX`, `-O2`, `FLAG=v`): `match_argument(action, 'A')` is 1 for every kind of option
                          the supported table can contain, so the single-dash *cluster* branch (`arg_count == 0`)
                          is dead code here and the explicit argument is the value (tables with zero-argument
                          options are `unsupported`, never silently mis-modelled); no explicit argument: the
                          following pattern is matched;
* `consumePositionals`  = `consume_positionals` with the single positional `file` (`nargs="*"`, pattern
                          `(-*[A-]*)`): it is matched once, at the first run of non-options, and is gone
                          afterwards; `_get_values` removes the first `--` from what it took;
* `loop`                = the `while start_index <= max_option_string_index` loop (positionals, `continue`,
                          extras up to the next option, `consume_optional`) and the code after it (trailing
                          positionals, remaining strings -> extras);
* `takeAction`          = `take_action` / `_get_values` / `_AppendAction`, `_StoreAction`, CBI's `_UndefineAction`
                          (`Argparse.Cfg.apply`; its `TypeError` on a non-string list element leaves the parser as it is).

Observable result: the four value lists, `namespace.file`, the `extras` list, or the class of the abort
(`ArgumentError` raised because `exit_on_error=False`, `SystemExit` from `parser.error()`, `TypeError` from `_UndefineAction`).
Core Lean only (linked into the native driver). -/
namespace CbiVerif.ArgparseFull
open CbiVerif.Argparse CbiVerif.Gen

def ddash : Arg := ['-', '-']

/-- one character of `arg_strings_pattern`, with the string and (for `'O'`) the entry of `option_string_indices` -/
inductive Tok
  | A (a : Arg)               -- 'A'
  | DD                        -- '-' (the first `--`)
  | O (a : Arg) (c : Cls)     -- 'O'; `c` is `.unknown` (action `None`) or `.opt o explicit`
deriving DecidableEq, Repr, Inhabited

def Tok.str : Tok → Arg
  | .A a => a
  | .DD => ddash
  | .O a _ => a

def Tok.isO : Tok → Bool
  | .O _ _ => true
  | _ => false

/-- the up-front classification pass; `self.error()` on an ambiguous prefix -/
def tokenize (t : List Opt) : List Arg → Except PErr (List Tok)
  | [] => .ok []
  | a :: rest =>
    if a = ddash then .ok (.DD :: rest.map .A)
    else match classify t a with
      | .positional => (tokenize t rest).map (Tok.A a :: ·)
      | .ambiguous => .error .systemExit
      | c => (tokenize t rest).map (Tok.O a c :: ·)

/-- what the parser hands back -/
structure St where
  cfg : Cfg := {}
  /-- `none`: the positional `file` is still in `positionals`; `some l`: it has been matched, `namespace.file = l` -/
  file : Option (List Arg) := none
  extras : List Arg := []
deriving DecidableEq, Repr, Inhabited

/-- `nargs` of an option of the supported kinds -/
inductive NArgs | one | opt
deriving DecidableEq, Repr, Inhabited

def nargsOf : Kind → Option NArgs
  | .value _ => some .one
  | .ignoreReq => some .one
  | .ignoreOpt => some .opt
  | .unsupported => none

/-- `_match_argument(action, arg_strings_pattern[start:])` for an option: `(A)` / `(A?)` -/
def matchArgument (n : NArgs) (pat : List Tok) : Except PErr Nat :=
  match n, pat with
  | .one, .A _ :: _ => .ok 1
  | .one, _ => .error .argumentError       -- "expected one argument"
  | .opt, .A _ :: _ => .ok 1
  | .opt, _ => .ok 0

/-- `take_action`: `_get_values` (one string, the first `--` removed) and the action -/
def takeAction (k : Kind) (args : List Arg) (c : Cfg) : Except PErr Cfg :=
  match k, args with
  | .value a, [s] => c.apply a (toVal s)
  | _, _ => .ok c

/-- `consume_optional(start_index)`; `rest` = the pattern / strings after `start_index` -/
def consumeOptional (st : St) (a : Arg) (c : Cls) (rest : List Tok) : Except PErr (St × List Tok) :=
  match c with
  | .opt o (some e) =>
    match nargsOf o.kind with
    | none => .error .unsupported
    | some _ =>
      match takeAction o.kind [e] st.cfg with
      | .error err => .error err
      | .ok cfg => .ok ({ st with cfg := cfg }, rest)
  | .opt o none =>
    match nargsOf o.kind with
    | none => .error .unsupported
    | some n =>
      match matchArgument n rest with
      | .error e => .error e
      | .ok k =>
        match takeAction o.kind ((rest.take k).map Tok.str) st.cfg with
        | .error err => .error err
        | .ok cfg => .ok ({ st with cfg := cfg }, rest.drop k)
  | _ => .ok ({ st with extras := st.extras ++ [a] }, rest)

/-- the longest prefix matching `[A-]*` -/
def spanPos : List Tok → List Tok × List Tok
  | .A a :: r => ((Tok.A a) :: (spanPos r).1, (spanPos r).2)
  | .DD :: r => (Tok.DD :: (spanPos r).1, (spanPos r).2)
  | r => ([], r)

/-- the strings before the next option (`arg_strings[start_index:next_option_string_index]`) -/
def untilOpt : List Tok → List Tok × List Tok
  | [] => ([], [])
  | .O a c :: r => ([], .O a c :: r)
  | x :: r => (x :: (untilOpt r).1, (untilOpt r).2)

/-- `consume_positionals(start_index)` -/
def consumePositionals (st : St) (toks : List Tok) : St × List Tok :=
  match st.file with
  | some _ => (st, toks)
  | none => ({ st with file := some (((spanPos toks).1.map Tok.str).erase ddash) }, (spanPos toks).2)

def hasOpt (toks : List Tok) : Bool := toks.any Tok.isO

/-- the main loop of `_parse_known_args` on the part of the command line from `start_index` on -/
def loop : Nat → St → List Tok → Except PErr St
  | 0, _, _ => .error .unsupported
  | n + 1, st, toks =>
    if !hasOpt toks then
      -- `start_index > max_option_string_index`: trailing positionals, the remaining strings are extras
      let r := consumePositionals st toks
      .ok { r.1 with extras := r.1.extras ++ r.2.map Tok.str }
    else
      match toks with
      | .O a c :: rest =>
        match consumeOptional st a c rest with
        | .ok r => loop n r.1 r.2
        | .error e => .error e
      | _ =>
        let r := consumePositionals st toks
        if r.2.length < toks.length then loop n r.1 r.2      -- `continue`
        else
          match (untilOpt toks).2 with
          | .O a c :: rest =>
            match consumeOptional { r.1 with extras := r.1.extras ++ (untilOpt toks).1.map Tok.str } a c rest with
            | .ok r' => loop n r'.1 r'.2
            | .error e => .error e
          | _ => .error .unsupported

/-- everything `parse_known_args` returns that `parse_args` could use -/
structure FResult where
  defines : List Val
  includePaths : List Val
  systemPaths : List Val
  includeFiles : List Val
  file : List Arg
  extras : List Arg
deriving DecidableEq, Repr, Inhabited

def St.result (s : St) : FResult :=
  ⟨s.cfg.defines, s.cfg.includePaths, s.cfg.systemPaths, s.cfg.includeFiles, s.file.getD [], s.extras⟩

def FResult.cfg (r : FResult) : Cfg := ⟨r.defines, r.includePaths, r.systemPaths, r.includeFiles⟩

/-- `parser.parse_known_args(argv, namespace)` for the table `t` -/
def parseFull (t : List Opt) (argv : List Arg) : Except PErr FResult :=
  match tokenize t argv with
  | .error e => .error e
  | .ok toks =>
    if t.any (fun o => o.kind == .unsupported) then .error .unsupported
    else (loop (toks.length + 1) {} toks).map St.result

/-- the call `config.ArgumentParser(<unrecognised compiler>).parse_args(argv)` makes, all outputs -/
def fullModel (argv : List Arg) : Except PErr FResult :=
  if !settingsOK then .error .unsupported
  else parseFull table argv

/-- the three list arguments of `PreprocessorConfiguration(...)`, from the full result -/
def fullConfiguration (argv : List Arg) : Except PErr MResult := (fullModel argv).map fun r => assemble r.cfg

/-! ### "outside a flag/value pair"

`stateAfter t p c xs` = where the left-to-right consume loop stands after the arguments `xs`;
`waitsForValue xs` = after `xs` an option is still waiting for its (required) argument, i.e. `xs` ends inside
a flag/value pair (`… -D`, `… -isystem`, `… -o`). -/

def stateAfter (t : List Opt) : Pend → Cfg → List Arg → Except PErr (Pend × Cfg)
  | p, c, [] => .ok (p, c)
  | p, c, a :: rest =>
    match step t p c a with
    | .ok r => stateAfter t r.1 r.2 rest
    | .error e => .error e

def waitsForValue (xs : List Arg) : Bool :=
  match stateAfter table .idle {} xs with
  | .ok (.need _, _) => true
  | .ok (.needIgn, _) => true
  | _ => false

/-- an argument that cannot be taken for an option: empty, or not starting with `-` -/
def plainPositional (a : Arg) : Bool :=
  match a with
  | [] => true
  | c :: _ => c != '-'

end CbiVerif.ArgparseFull
