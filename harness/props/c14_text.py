"""C14, stream `textperm` — order independence of the composed TEXT-LEVEL pipeline, real code vs `Props/C14Compose.lean`.

One generated text-level code base (generator and adapters of `c06_text.py`: C01 conditional-inclusion programs decorated
with C05 material, 1-4 files, 0-4 platforms, `-D` lists per compile command; here with more files that have two or three
compile commands with DIFFERENT `-D` lists in one database) is presented in several ways ("variants"):

  * the files created (and listed) in another order,
  * the `[platform.*]` tables (keys of the configuration dict) in another order,
  * the entries of every compilation database permuted, some of them written twice.

Implementation (real code): every variant is written to its own scratch directory and analysed by `finder.find`,
  `get_setmap`, `report.summary`, `tree.walk()` / `association`, and for one platform by the real
  `codebasin.coverage.__main__._compute` on a `compile_commands.json` with the variant's entry order — in process, and again in
  FRESH interpreter processes under several `PYTHONHASHSEED`s (one child per seed handles all cases).
Oracle (property, no model involved): all observations of one case — every variant, every hash seed — must be identical:
  per-line attribution (sets), `get_setmap` as a key -> count map, the summary text byte for byte, the coverage array
  (order and content); "raises" vs "does not raise" must be the same (WHICH exception is raised when several inputs are faulty
  is not a listed result: `C14.Text.first_exception_depends_on_order`).
Model (Lean, driver op `c14text`): `C14C.canonOf (C06C.analyse files plats)` per variant — the definitions the theorems
  `C14.Text.analysis_deterministic` / `setmap_perm_files` / `setmap_perm_platforms` / `setmap_perm_entries` / `coverage_perm`
  are about — and the flag `invariant` (= `resultsOfTexts` equal for all variants sent, evaluated natively).  The real
  observations must equal the model's: rows (names, counts, printed order), Total SLOC, attribution, used/unused split.
"""
from __future__ import annotations

import hashlib
import json
import os
import random
import subprocess
import sys
import time

from harness import core
from harness.props import c01 as C01
from harness.props import c06_text as T


# --------------------------------------------------------------------------
# generator
# --------------------------------------------------------------------------
def gen_case(rng, nvariants=3):
    base = T.gen_case(rng, fortran=False)
    for f in base["files"]:
        f.pop("eol", None)  # files are written as the universal-newline text here
    names = sorted({d.split("=")[0] for p in base["plats"] for e in p["entries"] for d in e["defs"]}) or ["A", "B"]
    for p in base["plats"]:
        # more files with two or three compile commands whose -D lists differ: sensitive to entry order / "first one wins"
        for f in base["files"]:
            if rng.random() < 0.35:
                for _ in range(rng.choice([1, 1, 2])):
                    defs = [d + "1" if d.endswith("=") else d for d in C01.gen_defs(rng, names)]
                    p["entries"].append({"file": f["path"], "defs": defs})
        rng.shuffle(p["entries"])
    variants = [{"files": base["files"], "plats": base["plats"]}]
    for _ in range(nvariants - 1):
        variants.append(make_variant(rng, variants[0]))
    return {"kind": "textperm", "variants": variants, "cov": base["cov"]}


def make_variant(rng, v0):
    files = list(v0["files"])
    rng.shuffle(files)
    plats = []
    for p in v0["plats"]:
        es = list(p["entries"])
        for e in list(es):
            if rng.random() < 0.25:
                es.append(dict(e))
        rng.shuffle(es)
        plats.append({"name": p["name"], "entries": es})
    rng.shuffle(plats)
    if files == v0["files"] and len(files) > 1:
        files = files[::-1]
    if [p["name"] for p in plats] == [p["name"] for p in v0["plats"]] and len(plats) > 1:
        plats = plats[::-1]
    return {"files": files, "plats": plats}


def presentation_key(v):
    """what a presentation presents: the multiset of files, the set of platforms, per platform the SET of entries"""
    return (sorted((tuple(f["path"]), f["text"]) for f in v["files"]),
            sorted((p["name"], sorted({(tuple(e["file"]), tuple(e["defs"])) for e in p["entries"]})) for p in v["plats"]))


def well_formed(case):
    """the variants are presentations of ONE input (the hypothesis of `C14.Text.analysis_deterministic`), file and
    platform names are distinct"""
    vs = case["variants"]
    k0 = presentation_key(vs[0])
    return (all(presentation_key(v) == k0 for v in vs)
            and all(len({tuple(f["path"]) for f in v["files"]}) == len(v["files"]) for v in vs)
            and all(len({p["name"] for p in v["plats"]}) == len(v["plats"]) for v in vs))


# --------------------------------------------------------------------------
# implementation side
# --------------------------------------------------------------------------
def observe(variant, cov):
    """one variant analysed by the real code in fresh scratch directories -> canonical observation (JSON-able)"""
    with core.Scratch() as d, core.Scratch() as outdir:
        root = os.path.join(os.path.realpath(d), "cb")
        os.makedirs(root)
        case = {"files": variant["files"], "plats": variant["plats"], "cov": cov}
        impl = T.run_impl(root, case)
        c = T.run_coverage(root, os.path.realpath(outdir), case) if cov and any(p["name"] == cov for p in variant["plats"]) else None
    if "exc" in impl:
        return {"exc": impl["exc"]}
    attribution = {}
    for path, nodes in impl["files"].items():
        attribution["/".join(path)] = sorted([ln, ps] for ps, _, lines in nodes for ln in lines)
    out = {"attribution": attribution,
           "setmap": {"{" + ", ".join(k) + "}": n for k, n in sorted(impl["setmap"].items())},
           "summary": impl["summary"]}
    if c is not None:
        out["coverage"] = c if "exc" in c else [[r[0], r[1], r[2], r[3]] for r in c["records"]]
    return out


CHILD = r'''
import json, sys
sys.path.insert(0, sys.argv[2])
from harness import core
core.import_codebasin()
from harness.props import c14_text as X
cases = json.load(open(sys.argv[1]))
json.dump([[X.observe(v, c["cov"]) for v in c["variants"]] for c in cases], sys.stdout)
'''


def run_child(scratch, cases_file, seed):
    env = dict(os.environ, PYTHONHASHSEED=str(seed), CBI_REPO=str(core.REPO), MPLBACKEND="Agg")
    p = subprocess.run([sys.executable, str(scratch / "textperm_child.py"), str(cases_file), str(core.VERIF)],
                       cwd=str(scratch), env=env, capture_output=True, text=True, timeout=900)
    if p.returncode != 0:
        raise RuntimeError("textperm child failed: " + p.stderr[-800:])
    return json.loads(p.stdout)


# --------------------------------------------------------------------------
# comparison
# --------------------------------------------------------------------------
def describe_diff(a, b):
    if ("exc" in a) != ("exc" in b):
        return f"one raises ({a.get('exc') or b.get('exc')}), the other returns"
    if "exc" in a:
        return None  # both raise: the class of the first exception is not a listed result
    for k in ("attribution", "setmap", "summary", "coverage"):
        if a.get(k) != b.get(k):
            if k == "attribution":
                for f in sorted(set(a[k]) | set(b[k])):
                    if a[k].get(f) != b[k].get(f):
                        la, lb = dict(map(tuple_line, a[k].get(f, []))), dict(map(tuple_line, b[k].get(f, [])))
                        ln = next((x for x in sorted(set(la) | set(lb)) if la.get(x) != lb.get(x)), None)
                        return f"per-line attribution of {f}, line {ln}: {la.get(ln)} vs {lb.get(ln)}"
            if k == "summary":
                return "summary text:\n" + str(a[k]) + "\nvs\n" + str(b[k])
            return f"{k}: {a.get(k)} vs {b.get(k)}"
    return None


def tuple_line(x):
    return x[0], tuple(x[1])


def model_problems(variant, obs, res):
    """real observation of one variant vs `canonOf` of the model for the same variant"""
    from harness.gen import codebase as G

    if ("exc" in obs) != ("exc" in res):
        return [f"implementation {obs.get('exc', 'returns')} vs model {res.get('exc', 'returns')}"]
    if "exc" in obs:
        return []
    m, out = res["ok"], []
    mattr = {f: [[ln, ps] for ln, ps in rows] for f, rows in m["attribution"]}
    if mattr != obs["attribution"]:
        f = next((f for f in sorted(set(mattr) | set(obs["attribution"])) if mattr.get(f) != obs["attribution"].get(f)), None)
        out.append(f"per-line attribution of {f}: implementation {obs['attribution'].get(f)} vs model {mattr.get(f)}")
    if obs["summary"] is None:
        if m["rows"] is not None:
            out.append("summary raises ZeroDivisionError, the model prints rows")
    else:
        rows, total, _ = G.parse_summary(obs["summary"])
        got = [("{" + ", ".join(sorted(k)) + "}", c) for k, (c, _) in rows.items()]
        want = [(name, c) for name, c, _ in (m["rows"] or [])]
        if got != want:
            out.append(f"summary rows (printed order) {got} vs model {want}")
        if total is not None and total != m["total"]:
            out.append(f"Total SLOC {total} vs model {m['total']}")
    want_sm = {name: c for name, c, _ in (m["rows"] or [])}
    if m["rows"] is not None and obs["setmap"] != want_sm:
        out.append(f"get_setmap {obs['setmap']} vs model rows {want_sm}")
    return out


def cov_problems(obs, res1):
    """the real `_compute` for one platform vs the model's coverage export of that platform alone"""
    c = obs.get("coverage")
    if c is None or res1 is None:
        return []
    if isinstance(c, dict) or "exc" in res1:
        return [] if (isinstance(c, dict)) == ("exc" in res1) else [f"coverage: implementation {c} vs model {res1}"]
    got = [[f, u, un] for f, u, un, _ in c]
    want = [[r["file"], r["used"], r["unused"]] for r in res1["ok"]["coverage"]]
    return [] if got == want else [f"coverage.json records (array order) {got} vs model {want}"]


def nontrivial_key(case, res):
    if "ok" not in res:
        return None
    sets = {tuple(ps) for _, rows in res["ok"]["attribution"] for _, ps in rows}
    v0 = case["variants"][0]
    if len(v0["files"]) >= 2 and len(v0["plats"]) >= 2 and len(sets) >= 2 and any(sets):
        return "textperm:" + hashlib.sha1(json.dumps(v0, sort_keys=True).encode()).hexdigest()
    return None


def only(variant, cov):
    return {"files": variant["files"], "plats": [p for p in variant["plats"] if p["name"] == cov]}


def check_case(ctx, drv, case, observations, origin, record=True):
    """observations: list of (label, [obs per variant]) — the first is the in-process run.  -> list of property problems"""
    problems = []
    assert well_formed(case), "textperm: the variants are not presentations of one input"
    base_label, base = observations[0]
    ref = base[0]
    for label, obs in observations:
        for i, o in enumerate(obs):
            d = describe_diff(ref, o)
            if d:
                problems.append(f"[textperm] the same code base gives different results: presentation 0 ({base_label}) vs "
                                f"presentation {i} ({label}; files / platform tables / database entries rearranged): {d}")
                break
        if problems:
            break
    model_p = []
    rep = None
    if drv is not None:
        rep = drv.ask({"op": "c14text", "variants": case["variants"]})
        if not rep.get("invariant", False):
            model_p.append("the MODEL's listed results differ between the presentations (contradicts C14.Text.analysis_deterministic)")
        rep1 = drv.ask({"op": "c14text", "variants": [only(v, case["cov"]) for v in case["variants"]]}) if case.get("cov") else None
        for i, (v, o) in enumerate(zip(case["variants"], base)):
            model_p += [f"presentation {i}: {x}" for x in model_problems(v, o, rep["results"][i])]
            if rep1 is not None:
                model_p += [f"presentation {i}: {x}" for x in cov_problems(o, rep1["results"][i])]
    if record:
        if problems:
            ctx.violation(problems[0], dict(case, origin=origin))
        if model_p:
            ctx.corr_break("c14text", dict(case, origin=origin), model_p[:3], "see replay")
        v0 = case["variants"][0]
        ctx.count(key=f"textperm:files={len(v0['files'])},platforms={len(v0['plats'])}",
                  nontrivial_key=nontrivial_key(case, rep["results"][0]) if rep else None)
        ctx.dist["textperm:analysis raises" if "exc" in ref else "textperm:analysis returns"] += 1
        if rep and "ok" in rep["results"][0] and len(v0["plats"]) >= 2 and len(v0["files"]) >= 2:
            ctx.sample({"kind": "textperm", "presentation_0": {"files": [dict(f, text=f["text"][:200]) for f in v0["files"][:2]],
                                                                "plats": v0["plats"][:2]},
                        "presentation_1_order": {"files": ["/".join(f["path"]) for f in case["variants"][1]["files"]],
                                                 "platforms": [p["name"] for p in case["variants"][1]["plats"]],
                                                 "entries": [len(p["entries"]) for p in case["variants"][1]["plats"]]},
                        "rows": rep["results"][0]["ok"]["rows"]}, cap=10)
    return problems, model_p, rep


def shrink(ctx, drv, case, budget=40):
    """greedy reduction of a violating case (in-process observations only): fewer variants, files, platforms, entries, lines"""
    def bad(c):
        if not well_formed(c):
            return False
        obs = [observe(v, c.get("cov")) for v in c["variants"]]
        return bool(check_case(ctx, None, c, [("in process", obs)], "shrink", record=False)[0])

    def variants(c):
        vs = c["variants"]
        if len(vs) > 2:
            for i in range(1, len(vs)):
                yield dict(c, variants=[vs[0], vs[i]])
        paths = [f["path"] for f in vs[0]["files"]]
        if len(paths) > 1:
            for p in paths:
                yield dict(c, variants=[{"files": [f for f in v["files"] if f["path"] != p],
                                         "plats": [dict(q, entries=[e for e in q["entries"] if e["file"] != p]) for q in v["plats"]]}
                                        for v in vs])
        for name in [p["name"] for p in vs[0]["plats"]]:
            yield dict(c, variants=[{"files": v["files"], "plats": [q for q in v["plats"] if q["name"] != name]} for v in vs],
                       cov=None if c.get("cov") == name else c.get("cov"))
        for vi, v in enumerate(vs):
            for pi, p in enumerate(v["plats"]):
                for j in range(len(p["entries"])):
                    e = p["entries"][j]
                    # drop this entry from every presentation (all its copies), or just this copy
                    yield dict(c, variants=[{"files": w["files"], "plats": [dict(q, entries=[x for x in q["entries"] if not (q["name"] == p["name"] and x == e)])
                                                                              for q in w["plats"]]} for w in vs])
                    yield dict(c, variants=vs[:vi] + [{"files": v["files"], "plats": v["plats"][:pi] + [dict(p, entries=p["entries"][:j] + p["entries"][j + 1:])] + v["plats"][pi + 1:]}] + vs[vi + 1:])
        for path in paths:
            text = next(f["text"] for f in vs[0]["files"] if f["path"] == path)
            lines = text.split("\n")
            for j in range(len(lines)):
                t = "\n".join(lines[:j] + lines[j + 1:])
                yield dict(c, variants=[{"files": [dict(f, text=t) if f["path"] == path else f for f in v["files"]], "plats": v["plats"]} for v in vs])

    t0 = time.time()
    changed = True
    while changed and time.time() - t0 < budget:
        changed = False
        for v in variants(case):
            if time.time() - t0 > budget:
                break
            try:
                if bad(v):
                    case, changed = v, True
                    break
            except Exception:  # noqa
                continue
    return case


# --------------------------------------------------------------------------
# stream
# --------------------------------------------------------------------------
def submit(ctx, pool, scratch):
    """generate the cases, start one child interpreter per hash seed (they handle the first `nsub` cases)"""
    n = ctx.n(48, 400)
    nsub = ctx.n(12, 120)
    nseeds = 6 if ctx.thorough() else 3
    cases = []
    for f in sorted((core.VERIF / "corpus" / "C14").glob("*.json")):
        c = json.loads(f.read_text())
        if c.get("kind") == "textperm":
            cases.append((c, "corpus:" + f.name))
    ncorpus = len(cases)
    for _ in range(n):
        seed = ctx.rng.randrange(1 << 30)
        cases.append((gen_case(random.Random(seed)), f"textperm:{seed}"))
    (scratch / "textperm_child.py").write_text(CHILD)
    sub = cases[: ncorpus + nsub]
    cf_ = scratch / "textperm_cases.json"
    cf_.write_text(json.dumps([c for c, _ in sub]))
    seeds = [0] + [ctx.rng.randrange(1, 2 ** 32 - 1) for _ in range(nseeds - 1)]
    return cases, len(sub), seeds, [pool.submit(run_child, scratch, cf_, s) for s in seeds]


def inprocess(ctx, cases, seconds):
    """the in-process observations (run while the children work)"""
    core.import_codebasin()
    t0 = time.time()
    out = []
    for c, _ in cases:
        if time.time() - t0 > seconds:
            ctx.notes.append(f"textperm stream stopped by its time box ({seconds}s) after {len(out)} of {len(cases)} code bases")
            break
        out.append([observe(v, c.get("cov")) for v in c["variants"]])
    return out


def collect(ctx, drv, job, inproc):
    cases, nsub, seeds, futs = job
    outs = [f.result() for f in futs]
    for i, obs in enumerate(inproc):
        case, origin = cases[i]
        observations = [("in process", obs)]
        if i < nsub:
            observations += [(f"fresh interpreter, PYTHONHASHSEED={s}", o[i]) for s, o in zip(seeds, outs)]
        problems, _, _ = check_case(ctx, drv, case, observations, origin)
        if problems and len(ctx.violations) <= 1:
            # minimise the first one (in-process differences only; a hash-seed-only difference is kept as it is)
            try:
                small = shrink(ctx, drv, case)
                if small is not case:
                    obs2 = [observe(v, small.get("cov")) for v in small["variants"]]
                    p2 = check_case(ctx, None, small, [("in process", obs2)], origin, record=False)[0]
                    if p2:
                        ctx.violations[-1] = (p2[0], dict(small, origin=origin + " (minimised)"))
            except Exception:  # noqa
                pass
    ctx.extra["textperm"] = {"code_bases": len(inproc), "presentations_per_code_base": 3,
                             "code_bases_in_fresh_interpreters": min(nsub, len(inproc)), "hash_seeds": len(seeds)}


def replay(ctx, drv, case):
    core.import_codebasin()
    if not well_formed(case):
        return {"error": "the variants of this case are not presentations of one input (files / platforms / entry sets differ)"}
    obs = [observe(v, case.get("cov")) for v in case["variants"]]
    problems, model_p, rep = check_case(ctx, drv, case, [("in process", obs)], case.get("origin", "replay"))
    return {"contradicts_property": problems, "differs_from_model": model_p,
            "implementation": {f"presentation_{i}": o for i, o in enumerate(obs)},
            "model": rep, "spec": "identical listed results for every presentation (C14.Text.analysis_deterministic)"}
