import CbiVerif.Props.C06Compose
import CbiVerif.Lemmas.C06Fortran
/-!
# C06 about SOURCE TEXT — code bases of C-family AND free-form Fortran files

`C06L.analyseL files plats` (`Model/C06Fortran.lean`) is the analysis result of a code base given as texts whose front end is
chosen per file by its extension, as `get_file_source` does: C-family files go through the C05 parser model
(`C06C.parseSrc`), `.f90/.F90` files through the C17 model (`Fortran.fortranSource`, `Fortran.group`, `Fortran.pnodeOf`);
behind the node list everything is the one definition of `Model/C06Compose.lean` (C01 associator per configuration entry,
platform set per node, `SM.getSetmap`, `Cov.compute`).  The driver executes exactly this definition (op `c06text`).

* `mixed_eq_C_on_C_files`  — on a code base of C-family files `analyseL` IS `C06C.analyse`, so the eight theorems of
  `Props/C06Compose.lean` are statements about what the driver executes there;
* `file_lines_counted_once_mixed`, `setmap_total_is_sloc_of_text_mixed`, `summary_rows_of_text_mixed`,
  `coverage_partition_of_text_mixed`, `platform_sets_are_reference_mixed`, `used_iff_reference_keeps_mixed` — the analogues
  for mixed code bases; the counted lines of a Fortran file are those of C17's reference scanner (`Fortran.refText`) under
  C17's guard (inside `WF`, no line of finding class F-C17-1), from `C17.structural_*` and `C17.lines_eq_ref`;
* `fortran_reference_is_C17` — for a Fortran file the reference run the platform sets are tied to is
  `Fortran.referenceFortran`, the one of `C17.conditionals_as_C`.

Every statement is for all texts, all platform lists and all `-D` lists.  Scope: no `#include` resolution (C04's layer);
`asm` sources are not modelled (the model raises on them, so no statement below speaks about a code base holding one).
-/
namespace CbiVerif.C06
open CbiVerif.SM CbiVerif.C06C CbiVerif.C06L

/-- **mixed_eq_C_on_C_files.**  The old definitions are the C instance: `C06C.analyse` is `analyseG` with the C parser (by
    `rfl`), and on a code base all of whose files have a C-family extension the language-dispatching analysis the driver
    executes returns exactly what `C06C.analyse` returns (result or exception). -/
theorem mixed_eq_C_on_C_files (files : List SrcFile) (plats : List Plat)
    (h : ∀ f ∈ files, langOf f.path = .cFamily) :
    C06C.analyse = analyseG (fun f => parseSrc f.text) ∧ analyseL files plats = C06C.analyse files plats := by
  refine ⟨rfl, ?_⟩
  unfold analyseL
  rw [analyse_eq_analyseG]
  unfold analyseG
  rw [mapE_congr parseSrcL (fun f => parseSrc f.text) files (fun f hf => parseSrcL_c f (h f hf))]

/-- the extensions of the code's CURRENT table (regenerated on every run): `.f90/.F90` select the Fortran front end, the
    C / C++ extensions the C front end, fixed-form Fortran and unknown extensions raise; the choice looks at the last
    component of the path only -/
theorem language_by_extension :
    ([".f90", ".F90"].all fun e => langOfExt e == .fortranFree) = true ∧
    ([".c", ".h", ".cpp", ".hpp", ".cc", ".cxx", ".cu", ".cl"].all fun e => langOfExt e == .cFamily) = true ∧
    ([".f", ".F", ".ftn", ".for", ".txt", ""].all fun e => langOfExt e == .unsupported) = true ∧
    langOf ["src", "util", "solver.F90"] = .fortranFree ∧ langOf ["a.f90", "main.c"] = .cFamily ∧
    langOf [".f90"] = .unsupported := by
  decide

/-- what the record `r` of the analysis says about the text of the file `f` it was computed from (any language) -/
def FileFactsL (f : SrcFile) (r : FileRec) : Prop :=
  r.path = f.path ∧ r.link = false ∧
  (CbiVerif.Cov.fileLines r.nodes).Pairwise (· < ·) ∧
  (∀ m ∈ CbiVerif.Cov.fileLines r.nodes, 1 ≤ m ∧ m ≤ physLines f) ∧
  (∀ n ∈ r.nodes, n.numLines = n.lines.length) ∧
  (guardL f = true → CbiVerif.Cov.fileLines r.nodes = countedL f) ∧
  (langOf f.path = .cFamily → C06C.guard f.text = true →
    r.nodes.map (·.lines) = (CLexRef.nodes f.text).map (·.2) ∧ ∀ n ∈ r.nodes, 1 ≤ n.numLines)

/-- **file_lines_counted_once_mixed.**  For every code base of C-family and free-form Fortran texts and every configuration on
    which the analysis does not raise: the i-th record belongs to the i-th file, is not a link, and the concatenation of
    `node.lines` over ALL its nodes (code nodes and directive nodes, `tree.walk()` order) is strictly increasing — no physical
    line in two nodes or twice in one — within `1..n`, with `num_lines = len(lines)` for every node (C: `C05.partition`;
    Fortran: `C17.structural_increasing / _in_range / _nodes`; no hypothesis on the text); and for a text inside the guard
    of its language (C: C05's; Fortran: accepted by C17's reference scanner with no F-C17-1 line) that concatenation IS the
    list of lines the language's specification counts (`CLexRef.countedLines` resp. `Fortran.countedLines ∘ refText`).
    For a C-family file the nodes are moreover grouped as the C05 specification groups them, as before. -/
theorem file_lines_counted_once_mixed (files : List SrcFile) (plats : List Plat) (fs : List FileRec)
    (h : analyseL files plats = .ok fs) : List.Forall₂ FileFactsL files fs := by
  obtain ⟨ps, pr, _, hp⟩ := analyseG_pairs parseSrcL files plats fs h
  refine hp.imp ?_
  rintro f r ⟨p, _, hparse, rfl⟩
  obtain ⟨h1, h2, h3, _, h5⟩ := parseSrcL_facts f p hparse
  refine ⟨rfl, rfl, ?_, ?_, ?_, ?_, ?_⟩
  · show (CbiVerif.Cov.fileLines (nodeRecs pr f.path p.nodes)).Pairwise (· < ·)
    rw [fileLines_nodeRecs]; exact h1
  · show ∀ m ∈ CbiVerif.Cov.fileLines (nodeRecs pr f.path p.nodes), _
    rw [fileLines_nodeRecs]; exact h2
  · exact nodeRecs_wf pr f.path p.nodes h3
  · intro hg
    show CbiVerif.Cov.fileLines (nodeRecs pr f.path p.nodes) = _
    rw [fileLines_nodeRecs]; exact h5 hg
  · intro hl hg
    rw [parseSrcL_c f hl] at hparse
    obtain ⟨hwf, hk1, hk2⟩ := (guard_iff f.text).mp hg
    obtain ⟨r0, hpf, hn, _, _⟩ := parseSrc_ok f.text p hparse
    obtain ⟨hnodes, _, hpos⟩ := CbiVerif.C05.nodes_of_ok f.text hwf hk1 hk2 r0 hpf
    rw [hn] at hnodes hpos
    refine ⟨?_, ?_⟩
    · show (nodeRecs pr f.path p.nodes).map (·.lines) = _
      rw [nodeRecs_lines, ← hnodes, List.map_map]; rfl
    · intro n hn'
      have hmem : n.numLines ∈ (nodeRecs pr f.path p.nodes).map (·.numLines) := List.mem_map_of_mem hn'
      rw [nodeRecs_numLines] at hmem
      obtain ⟨nd, hnd, he⟩ := List.mem_map.mp hmem
      rw [← he]; exact (hpos nd hnd).2

/-- **setmap_total_is_sloc_of_text_mixed.**  For every mixed code base and configuration on which the analysis does not raise:
    every row of `get_setmap` is the number of counted lines whose node carries exactly that platform set, the sum of the
    setmap is the number of lines of all nodes of all files (Fortran files included, directive nodes included), and when every
    text is inside the guard of its language that sum is the number of lines the SPECIFICATIONS count in the texts — C05's
    for the C-family files plus C17's for the Fortran files: the SLOC of the code base. -/
theorem setmap_total_is_sloc_of_text_mixed (files : List SrcFile) (plats : List Plat) (fs : List FileRec)
    (h : analyseL files plats = .ok fs) :
    NodesWF fs ∧ (∀ k, get (getSetmap fs) k = specCount fs k) ∧ total (getSetmap fs) = specSloc fs ∧
    total (getSetmap fs) = (fs.map fun r => (CbiVerif.Cov.fileLines r.nodes).length).sum ∧
    ((∀ f ∈ files, guardL f = true) →
      total (getSetmap fs) = (files.map fun f => (countedL f).length).sum) := by
  have hff := file_lines_counted_once_mixed files plats fs h
  have hwf : NodesWF fs := by
    intro r hr n hn
    obtain ⟨f, _, hf⟩ := forall₂_right hff r hr
    exact hf.2.2.2.2.1 n hn
  have hl : ∀ r ∈ fs, r.link = false := by
    intro r hr
    obtain ⟨f, _, hf⟩ := forall₂_right hff r hr
    exact hf.2.1
  obtain ⟨hrow, htot⟩ := setmap_lines fs hwf
  refine ⟨hwf, hrow, htot, by rw [htot, specSloc_nolink fs hl], ?_⟩
  intro hg
  rw [htot, specSloc_nolink fs hl]
  clear hwf hl hrow htot h
  induction hff with
  | nil => rfl
  | @cons f r files fs hfr _ ih =>
    simp only [List.map_cons, List.sum_cons]
    rw [ih (fun f' hf' => hg f' (List.mem_cons_of_mem _ hf')), hfr.2.2.2.2.2.1 (hg f List.mem_cons_self)]

/-- **summary_rows_of_text_mixed.**  The rows `codebasin -R summary` prints for the analysis of a mixed code base: each row's
    count is the number of counted lines carrying exactly its platform set, its percentage that count over the SLOC, and
    `Total SLOC` is the number of lines the specifications of the files' languages count in the texts. -/
theorem summary_rows_of_text_mixed (files : List SrcFile) (plats : List Plat) (fs : List FileRec)
    (h : analyseL files plats = .ok fs) (rows : List CbiVerif.Summary.Row)
    (hr : CbiVerif.Summary.rows (getSetmap fs) = some rows) :
    (∀ r ∈ rows, r.count = specCount fs r.key ∧ r.percent = (specCount fs r.key : ℚ) / (specSloc fs : ℚ) * 100) ∧
    CbiVerif.Summary.totalCount (getSetmap fs) = specSloc fs ∧
    ((∀ f ∈ files, guardL f = true) →
      CbiVerif.Summary.totalCount (getSetmap fs) = (files.map fun f => (countedL f).length).sum) := by
  obtain ⟨hwf, _, htot, _, hg⟩ := setmap_total_is_sloc_of_text_mixed files plats fs h
  obtain ⟨h1, h2⟩ := summary_rows_are_line_counts fs hwf rows hr
  exact ⟨h1, h2, fun hgu => by rw [h2, ← htot]; exact hg hgu⟩

/-- **coverage_partition_of_text_mixed.**  The coverage export of the analysis of a mixed code base has one record per file
    (Fortran files included), and in the record of every file `used_lines ++ unused_lines` is a rearrangement of the lines of
    its nodes, WITHOUT repetition and with no line on both sides; a line is used iff its node carries a non-empty platform
    set, unused iff the empty one; and for a text inside the guard of its language the two lists together are exactly the
    lines the language's specification counts. -/
theorem coverage_partition_of_text_mixed (files : List SrcFile) (plats : List Plat) (fs : List FileRec)
    (h : analyseL files plats = .ok fs) :
    CbiVerif.Cov.compute fs = fs.map (fun r => (r.path, CbiVerif.Cov.split r.nodes)) ∧
    List.Forall₂ (fun (f : SrcFile) (r : FileRec) =>
      r.path = f.path ∧
      ((CbiVerif.Cov.split r.nodes).used ++ (CbiVerif.Cov.split r.nodes).unused).Perm (CbiVerif.Cov.fileLines r.nodes) ∧
      ((CbiVerif.Cov.split r.nodes).used ++ (CbiVerif.Cov.split r.nodes).unused).Nodup ∧
      (∀ l ∈ (CbiVerif.Cov.split r.nodes).used, l ∉ (CbiVerif.Cov.split r.nodes).unused) ∧
      (∀ l, l ∈ (CbiVerif.Cov.split r.nodes).used ↔ ∃ n ∈ r.nodes, l ∈ n.lines ∧ n.plats ≠ []) ∧
      (∀ l, l ∈ (CbiVerif.Cov.split r.nodes).unused ↔ ∃ n ∈ r.nodes, l ∈ n.lines ∧ n.plats = []) ∧
      (guardL f = true →
        ((CbiVerif.Cov.split r.nodes).used ++ (CbiVerif.Cov.split r.nodes).unused).Perm (countedL f)))
      files fs := by
  have hff := file_lines_counted_once_mixed files plats fs h
  constructor
  · unfold CbiVerif.Cov.compute
    rw [List.filter_eq_self.mpr]
    intro r hr
    obtain ⟨f, _, hf⟩ := forall₂_right hff r hr
    simp [hf.2.1]
  · refine hff.imp ?_
    intro f r hf
    obtain ⟨hperm, hu, hun, hnd⟩ := lines_partition r.nodes
    have hnodup : (CbiVerif.Cov.fileLines r.nodes).Nodup :=
      hf.2.2.1.imp (fun hab => Nat.ne_of_lt hab)
    obtain ⟨h1, h2⟩ := hnd hnodup
    exact ⟨hf.1, hperm, h1, h2, hu, hun, fun hg => by rw [← hf.2.2.2.2.2.1 hg]; exact hperm⟩

/-! ## the platform sets are those of the reference preprocessor -/

/-- every compile command of the configuration is a unit the ISO C reference machine accepts silently (no structural
    diagnostic, no unterminated `#if`, no macro redefinition), the unit of a Fortran file being its C17 node list -/
def RefAcceptsAllL (files : List SrcFile) (plats : List Plat) : Prop :=
  ∀ f ∈ files, ∀ p, parseSrcL f = .ok p → ∀ pl ∈ plats, ∀ e ∈ pl.entries, e.file = f.path →
    refAccepts p.pnodes e.defs = true

/-- **platform_sets_are_reference_mixed.**  For distinct file names and a configuration whose units the reference accepts: the
    platform set of the j-th node of every file — C-family or Fortran — is exactly the list of platforms having a compile
    command for that file under whose `-D` list the ISO C reference machine (`PP.referenceNodes`) does not skip node j; and
    for a Fortran file the node list the reference runs on is C17's `Fortran.fortranPNodes` of the text.
    (From `C01.analyseNodes_eq_reference`, for every entry of every platform; preprocessor conditionals select lines in a
    Fortran source as in C.) -/
theorem platform_sets_are_reference_mixed (files : List SrcFile) (plats : List Plat) (fs : List FileRec)
    (h : analyseL files plats = .ok fs) (hnd : (files.map (·.path)).Nodup) (hacc : RefAcceptsAllL files plats) :
    List.Forall₂ (fun f r => ∃ p, parseSrcL f = .ok p ∧ r.nodes.length = p.nodes.length ∧
        p.pnodes.length = p.nodes.length ∧
        r.nodes.map (·.plats) = (List.range p.nodes.length).map (specPlats plats f.path p.pnodes) ∧
        (langOf f.path = .fortranFree → Fortran.fortranPNodes (String.ofList f.text) = .ok p.pnodes)) files fs := by
  obtain ⟨ps, pr, hpr, hp⟩ := analyseG_pairs parseSrcL files plats fs h
  refine hp.imp ?_
  rintro f r ⟨p, hm, hparse, rfl⟩
  have hf : f ∈ files := (List.of_mem_zip hm).1
  have hl := lookup_of_mem files ps f p hnd hm
  refine ⟨p, hparse, ?_, ?_, ?_, ?_⟩
  · show (nodeRecs pr f.path p.nodes).length = _
    unfold nodeRecs; simp
  · exact (parseSrcL_facts f p hparse).2.2.2.1.length_eq.symm
  · show (nodeRecs pr f.path p.nodes).map (·.plats) = _
    rw [nodeRecs_plats]
    apply List.map_congr_left
    intro j _
    exact platsOf_ref files ps f.path p hl j plats pr hpr (fun pl hpl e he hef => hacc f hf p hparse pl hpl e he hef)
  · intro hlang
    rw [parseSrcL_f f hlang] at hparse
    obtain ⟨_, _, _, hpn, _⟩ := fParseSrc_ok f.text p hparse
    exact hpn

/-- **fortran_reference_is_C17.**  On the node list of a Fortran file the three reference-side functions of this composition
    are C17's `Fortran.referenceFortran` — the reference `C17.conditionals_as_C` compares the executed conditional selection
    of a Fortran source with: "kept by the reference run" is "selected in `referenceFortran text defs`". -/
theorem fortran_reference_is_C17 (t : List Char) (p : Parsed) (h : fParseSrc t = .ok p) (defs : List String) :
    Fortran.referenceFortran (String.ofList t) defs = PP.referenceNodes p.pnodes defs ∧
    Fortran.analyseFortran (String.ofList t) defs = PP.analyseNodes p.pnodes defs ∧
    (∀ j, refKeeps p.pnodes defs j =
      match Fortran.referenceFortran (String.ofList t) defs with
      | .ok r => (flagsOf r.rows).getD j false
      | .error _ => false) := by
  obtain ⟨_, _, _, hpn, _⟩ := fParseSrc_ok t p h
  have h1 : Fortran.referenceFortran (String.ofList t) defs = PP.referenceNodes p.pnodes defs := by
    unfold Fortran.referenceFortran; rw [hpn]; rfl
  refine ⟨h1, ?_, ?_⟩
  · unfold Fortran.analyseFortran; rw [hpn]; rfl
  · intro j; rw [h1]; rfl

/-- **used_iff_reference_keeps_mixed.**  Under the hypotheses of `platform_sets_are_reference_mixed`, in the coverage record of
    every file (C-family or Fortran) a line is listed as USED iff it is a line of a node that some platform's reference
    preprocessor run does not skip. -/
theorem used_iff_reference_keeps_mixed (files : List SrcFile) (plats : List Plat) (fs : List FileRec)
    (h : analyseL files plats = .ok fs) (hnd : (files.map (·.path)).Nodup) (hacc : RefAcceptsAllL files plats) :
    List.Forall₂ (fun f r => ∃ p, parseSrcL f = .ok p ∧
      ∀ l, l ∈ (CbiVerif.Cov.split r.nodes).used ↔
        ∃ j nd, p.nodes[j]? = some nd ∧ l ∈ nd.lines ∧
          ∃ pl ∈ plats, ∃ e ∈ pl.entries, e.file = f.path ∧ refKeeps p.pnodes e.defs j = true) files fs := by
  obtain ⟨ps, pr, hpr, hp⟩ := analyseG_pairs parseSrcL files plats fs h
  refine hp.imp ?_
  rintro f r ⟨p, hm, hparse, rfl⟩
  have hf : f ∈ files := (List.of_mem_zip hm).1
  have hl := lookup_of_mem files ps f p hnd hm
  refine ⟨p, hparse, fun l => ?_⟩
  rw [(lines_partition (mkRec pr (f, p)).nodes).2.1 l]
  show (∃ n ∈ nodeRecs pr f.path p.nodes, l ∈ n.lines ∧ n.plats ≠ []) ↔ _
  have hplats : ∀ j, platsOf pr f.path j = specPlats plats f.path p.pnodes j := fun j =>
    platsOf_ref files ps f.path p hl j plats pr hpr (fun pl hpl e he hef => hacc f hf p hparse pl hpl e he hef)
  have hne : ∀ j, specPlats plats f.path p.pnodes j ≠ [] ↔
      ∃ pl ∈ plats, ∃ e ∈ pl.entries, e.file = f.path ∧ refKeeps p.pnodes e.defs j = true := by
    intro j
    unfold specPlats
    simp only [ne_eq, List.map_eq_nil_iff, List.filter_eq_nil_iff, List.any_eq_true, Bool.and_eq_true, beq_iff_eq,
      not_forall, Classical.not_not, exists_prop]
  unfold nodeRecs
  constructor
  · rintro ⟨n, hn, hln, hpl⟩
    obtain ⟨x, hx, rfl⟩ := List.mem_map.mp hn
    obtain ⟨nd, j⟩ := x
    have hget : p.nodes[j]? = some nd := by
      have := List.mem_zipIdx_iff_getElem?.mp hx
      simpa using this
    exact ⟨j, nd, hget, hln, (hne j).mp (by rw [← hplats j]; exact hpl)⟩
  · rintro ⟨j, nd, hget, hln, hex⟩
    refine ⟨⟨platsOf pr f.path j, nd.numLines, nd.lines⟩, ?_, hln, ?_⟩
    · apply List.mem_map.mpr
      exact ⟨(nd, j), List.mem_zipIdx_iff_getElem?.mpr (by simpa using hget), rfl⟩
    · show platsOf pr f.path j ≠ []
      rw [hplats j]; exact (hne j).mpr hex

/-! ## per-line attribution against the specifications -/

/-- The statement that was left open here: a free-form Fortran text inside C17's guard is cut into nodes exactly as
    `Spec/FortranNodes.lean` groups the lines the C17 reference counts — one node per directive line, one per maximal run of
    counted lines between directive lines (the C analogue is `C05.nodes_of_ok`; `C17.lines_eq_ref` gives the equality of the
    concatenations).  PROVED in `Props/C06FortranGroups.lean` (`C06.fortranGroupsAreReference`, from `C17.nodes_eq_ref`).  It was
    false before the repair of the defect F-C17-2 of the code (a continuation line whose `#` opens the text of a statement that
    began with lone `&` lines was read as a preprocessor directive; `C17.F_C17_2_fixed`). -/
def FortranGroupsAreReference : Prop :=
  ∀ (t : List Char) (p : Parsed), fguard t = true → fParseSrc t = .ok p →
    p.nodes.map (fun nd => (nd.kind == CClean.NKind.directive, nd.lines)) = Fortran.refNodes (String.ofList t)

/-- FULL statement of the per-line attribution for mixed code bases: inside the guard of the file's language the per-line
    attribution of the record is the one written from the specifications alone -/
def LineAttributionIsReferenceMixed : Prop :=
  ∀ (files : List SrcFile) (plats : List Plat) (fs : List FileRec), analyseL files plats = .ok fs →
    (files.map (·.path)).Nodup → RefAcceptsAllL files plats →
    List.Forall₂ (fun (f : SrcFile) (r : FileRec) => ∃ p, parseSrcL f = .ok p ∧
      (guardL f = true → lineAttr r = specLineAttrL plats f p.pnodes)) files fs

/-- **line_attribution_is_reference_mixed_partial.**  For distinct file names and a configuration whose units the reference
    accepts: for every file whose nodes hold the lines the specification of its language groups together
    (`specNodesL`: `CLexRef.nodes` resp. `Fortran.refNodes`), the per-line attribution of the record (`SM.lineAttr`, the list
    `setmap_lines` / `specCount` count over) is EXACTLY the attribution written from the specifications alone
    (`specLineAttrL`): every counted line, once, with the platforms whose ISO C reference run keeps its group.  For a C-family
    file inside C05's guard the grouping hypothesis is discharged (`C05.nodes_of_ok`); for a Fortran file it is discharged in
    `Props/C06FortranGroups.lean` (`C06.line_attribution_is_reference_mixed`, and `LineAttributionIsReferenceMixed` itself is
    `C06.lineAttributionIsReferenceMixed`). -/
theorem line_attribution_is_reference_mixed_partial (files : List SrcFile) (plats : List Plat) (fs : List FileRec)
    (h : analyseL files plats = .ok fs) (hnd : (files.map (·.path)).Nodup) (hacc : RefAcceptsAllL files plats) :
    List.Forall₂ (fun (f : SrcFile) (r : FileRec) => ∃ p, parseSrcL f = .ok p ∧
        (p.nodes.map (·.lines) = (specNodesL f).map (·.2) → lineAttr r = specLineAttrL plats f p.pnodes) ∧
        (langOf f.path = .cFamily → guardL f = true → p.nodes.map (·.lines) = (specNodesL f).map (·.2))) files fs := by
  obtain ⟨ps, pr, hpr, hp⟩ := analyseG_pairs parseSrcL files plats fs h
  refine hp.imp ?_
  rintro f r ⟨p, hm, hparse, rfl⟩
  have hf : f ∈ files := (List.of_mem_zip hm).1
  have hl := lookup_of_mem files ps f p hnd hm
  refine ⟨p, hparse, fun hgrp => ?_, fun hlang hg => ?_⟩
  · have hplats : ∀ j, platsOf pr f.path j = specPlats plats f.path p.pnodes j := fun j =>
      platsOf_ref files ps f.path p hl j plats pr hpr (fun pl hpl e he hef => hacc f hf p hparse pl hpl e he hef)
    have hspec : specLineAttrL plats f p.pnodes =
        ((specNodesL f).map (·.2)).zipIdx.flatMap fun y => y.1.map fun l => (l, specPlats plats f.path p.pnodes y.2) := by
      unfold specLineAttrL
      rw [List.zipIdx_map, List.flatMap_map]
      rfl
    rw [hspec, ← hgrp, List.zipIdx_map, List.flatMap_map]
    show (nodeRecs pr f.path p.nodes).flatMap (fun n => n.lines.map fun l => (l, n.plats)) = _
    unfold nodeRecs
    rw [List.flatMap_map]
    simp only [Prod.map, id, hplats]
  · have hgc : C06C.guard f.text = true := by unfold guardL at hg; rw [hlang] at hg; exact hg
    rw [parseSrcL_c f hlang] at hparse
    obtain ⟨hwf, hk1, hk2⟩ := (guard_iff f.text).mp hgc
    obtain ⟨r0, hpf, hn, _, _⟩ := parseSrc_ok f.text p hparse
    obtain ⟨hnodes, _, _⟩ := CbiVerif.C05.nodes_of_ok f.text hwf hk1 hk2 r0 hpf
    rw [hn] at hnodes
    unfold specNodesL
    rw [hlang]
    show _ = (CLexRef.nodes f.text).map (·.2)
    rw [← hnodes, List.map_map]; rfl

/-! ## non-vacuity (kernel-checked): a C file and a Fortran file, two platforms, four compile commands -/

/-- decidable form of `RefAcceptsAllL` -/
def refAcceptsAllLb (files : List SrcFile) (plats : List Plat) : Bool :=
  files.all fun f =>
    match parseSrcL f with
    | .ok p => plats.all fun pl => pl.entries.all fun e => !(e.file == f.path) || refAccepts p.pnodes e.defs
    | .error _ => true

theorem refAcceptsAllL_of_b (files : List SrcFile) (plats : List Plat) (h : refAcceptsAllLb files plats = true) :
    RefAcceptsAllL files plats := by
  intro f hf p hp pl hpl e he hef
  unfold refAcceptsAllLb at h
  have h1 := List.all_eq_true.mp h f hf
  simp only [hp] at h1
  have h2 := List.all_eq_true.mp (List.all_eq_true.mp h1 pl hpl) e he
  simpa [hef] using h2

/-- `src/a.c`: comment on a code line, `#ifdef/#else` with a continued line; `src/solver.F90`: a statement continued over a
    comment line inside `#ifdef A`, a character literal holding `!`, a sentinel in the `#else` branch, an ordinary comment -/
def exSrcL : List SrcFile :=
  [⟨["src", "a.c"], "int a; /* c */\n#ifdef A\nint b;\n#else\nint c; \\\n  int d;\n#endif\n".toList⟩,
   ⟨["src", "solver.F90"],
     "x = 1 ! c\n#ifdef A\ny = 'a!b' // &\n  ! note\n  & 'c'\n#else\n!$omp parallel\n#endif\n! only a comment\nz = 2\n".toList⟩]

def exPlatsL : List Plat :=
  [⟨"cpu", [⟨["src", "a.c"], ["A"]⟩, ⟨["src", "solver.F90"], ["A=1"]⟩]⟩,
   ⟨"gpu", [⟨["src", "solver.F90"], []⟩, ⟨["src", "a.c"], ["A=1"]⟩]⟩]

/-- the hypotheses of all theorems above hold on it (the analysis does not raise, both texts are inside the guard of their
    language, file names are distinct, the reference accepts all four units), the result is not trivial (four platform sets;
    lines 4 and 9 of the Fortran file are not counted, its `#ifdef` branch is cpu's, its `#else` branch gpu's), and the code
    base is NOT a C code base (so `mixed_eq_C_on_C_files` does not apply: the statements are new) -/
example :
    ((analyseL exSrcL exPlatsL).toOption.map fun fs => (getSetmap fs, (CbiVerif.Cov.compute fs).map fun x => (x.2.used, x.2.unused)))
      = some ([(["cpu", "gpu"], 10), ([], 2), (["cpu"], 2), (["gpu"], 1)],
              [([1, 2, 3, 4, 7], [5, 6]), ([1, 2, 3, 5, 6, 7, 8, 10], [])]) ∧
    (exSrcL.all guardL) = true ∧ (exSrcL.map (·.path)).Nodup ∧ refAcceptsAllLb exSrcL exPlatsL = true ∧
    exSrcL.map (fun f => langOf f.path) = [.cFamily, .fortranFree] ∧
    exSrcL.map countedL = [[1, 2, 3, 4, 5, 6, 7], [1, 2, 3, 5, 6, 7, 8, 10]] ∧
    -- the grouping hypothesis of `line_attribution_is_reference_mixed_partial` holds for both files (an instance of
    -- `FortranGroupsAreReference` for the second)
    (exSrcL.all fun f => match parseSrcL f with
      | .ok p => p.nodes.map (fun nd => (nd.kind == CClean.NKind.directive, nd.lines)) == specNodesL f
      | .error _ => false) = true := by
  decide +kernel

end CbiVerif.C06
