"""Core of the CBI verification harness: build + audit of the Lean obligations,
driver protocol, classification of outcomes, evidence and replay files.

Run with /venv/bin/python; the real code is imported from REPO (default /repo).
"""
from __future__ import annotations

import collections
import fcntl
import json
import os
import random
import re
import shutil
import subprocess
import sys
import tempfile
import time
from pathlib import Path

VERIF = Path(__file__).resolve().parents[1]
REPO = Path(os.environ.get("CBI_REPO", "/repo")).resolve()
LEAN = VERIF / "lean"
DRIVER = LEAN / ".lake" / "build" / "bin" / "cbidriver"
STD_AXIOMS = {"propext", "Classical.choice", "Quot.sound"}
FORBIDDEN = re.compile(
    r"\bsorry\b|\badmit\b|^axiom |native_decide|bv_decide|implemented_by|\bunsafe |maxHeartbeats 0"
)


def import_codebasin():
    """Import the real implementation from REPO's working tree (never a shadow copy)."""
    sp = str(REPO)
    if sys.path[0] != sp:
        sys.path.insert(0, sp)
    import logging

    import codebasin  # noqa

    assert Path(codebasin.__file__).resolve().is_relative_to(REPO), codebasin.__file__
    logging.getLogger("codebasin").setLevel(logging.CRITICAL + 1)
    return codebasin


# --------------------------------------------------------------------------
# build + audit
# --------------------------------------------------------------------------
class BuildResult:
    def __init__(self):
        self.translator_ok = True
        self.translator_msg = ""
        self.lib_ok = True  # the property's Props module built
        self.driver_ok = True
        self.log = ""
        self.failed_modules: list[str] = []


def _run(cmd, cwd=None, timeout=3600, env=None):
    p = subprocess.run(cmd, cwd=cwd, capture_output=True, text=True, timeout=timeout, env=env)
    return p.returncode, p.stdout + p.stderr


def build(prop: str) -> BuildResult:
    """Regenerate the tables from REPO and (re)build the property's theorems and the driver."""
    res = BuildResult()
    lock = open(VERIF / ".build.lock", "w")
    fcntl.flock(lock, fcntl.LOCK_EX)
    try:
        rc, out = _run([sys.executable, str(VERIF / "tools" / "gen_tables.py"), str(REPO)])
        if rc != 0:
            res.translator_ok = False
            res.translator_msg = out[-2000:]
        rc, out = _run(["lake", "build", "cbidriver"], cwd=LEAN)
        res.log += out[-4000:]
        res.driver_ok = rc == 0 and DRIVER.exists()
        try:
            mods = json.loads((VERIF / "obligations" / f"{prop}.json").read_text()).get("modules", [])
        except Exception:  # noqa
            mods = []
        mods = [f"CbiVerif.Props.{prop}"] + [m for m in mods if m != f"CbiVerif.Props.{prop}"]
        rc, out = _run(["lake", "build"] + mods, cwd=LEAN)
        res.log += out[-6000:]
        res.lib_ok = rc == 0
        if rc != 0:
            res.failed_modules = sorted(set(re.findall(r"✖ \[\d+/\d+\] Building (\S+)", out)))
    finally:
        fcntl.flock(lock, fcntl.LOCK_UN)
        lock.close()
    return res


def load_obligations(prop: str):
    return json.loads((VERIF / "obligations" / f"{prop}.json").read_text())


def source_grep() -> list[str]:
    """Forbidden constructs in the Lean sources (outside comments)."""
    hits = []
    for f in sorted(LEAN.glob("**/*.lean")):
        if ".lake" in f.parts or (f.parent == LEAN and f.name.startswith("tmp")):
            continue  # build output; the audit file of a concurrently running check
        in_block = 0
        try:
            text = f.read_text()
        except FileNotFoundError:  # removed by a concurrent check between glob and read
            continue
        for n, line in enumerate(text.splitlines(), 1):
            code = line
            # strip block comments (no nesting subtleties needed for our sources)
            out = ""
            i = 0
            while i < len(code):
                if code.startswith("/-", i):
                    in_block += 1
                    i += 2
                elif code.startswith("-/", i) and in_block:
                    in_block -= 1
                    i += 2
                else:
                    if not in_block:
                        out += code[i]
                    i += 1
            out = out.split("--")[0]
            if FORBIDDEN.search(out):
                hits.append(f"{f.relative_to(VERIF)}:{n}: {line.strip()}")
    return hits


def audit(prop: str, thorough: bool = False):
    """#print axioms for every theorem listed for the property.
    Returns (theorems, discharged, axioms_used, problems)."""
    ob = load_obligations(prop)
    thms = ob["theorems"]
    mods = ob.get("modules", [f"CbiVerif.Props.{prop}"])
    src = "".join(f"import {m}\n" for m in mods) + "".join(f"#print axioms {t}\n" for t in thms)
    problems = []
    with tempfile.NamedTemporaryFile("w", suffix=".lean", dir=LEAN, delete=False) as tf:
        tf.write(src)
        name = tf.name
    try:
        rc, out = _run(["lake", "env", "lean", name], cwd=LEAN, timeout=1800)
    finally:
        os.unlink(name)
    discharged = []
    axioms = set()
    for t in thms:
        m = re.search(
            r"'" + re.escape(t) + r"' (depends on axioms: \[([^\]]*)\]|does not depend on any axioms)",
            out,
        )
        if not m:
            problems.append(f"theorem {t} not found in the built environment")
            continue
        ax = set(a.strip() for a in (m.group(2) or "").replace("\n", " ").split(",") if a.strip())
        axioms |= ax
        if ax - STD_AXIOMS:
            problems.append(f"theorem {t} uses non-standard axioms {sorted(ax - STD_AXIOMS)}")
        else:
            discharged.append(t)
    for h in source_grep():
        problems.append("forbidden construct: " + h)
    if thorough and not problems:
        rc, o2 = _run(["lake", "env", "leanchecker"] + mods, cwd=LEAN, timeout=3000)
        if rc != 0:
            problems.append("leanchecker failed: " + o2[-500:])
    return thms, discharged, sorted(axioms), problems


# --------------------------------------------------------------------------
# driver
# --------------------------------------------------------------------------
class Driver:
    """JSON-lines client of the native Lean driver (models + specs)."""

    def __init__(self):
        self.p = subprocess.Popen(
            [str(DRIVER)], stdin=subprocess.PIPE, stdout=subprocess.PIPE, text=True, bufsize=1 << 20
        )

    def ask(self, obj):
        self.p.stdin.write(json.dumps(obj) + "\n")
        self.p.stdin.flush()
        line = self.p.stdout.readline()
        if not line:
            raise RuntimeError("driver died on " + json.dumps(obj)[:300])
        return json.loads(line)

    def batch(self, objs):
        """Send many requests, read as many replies (one thread writes)."""
        import threading

        objs = list(objs)

        def w():
            for o in objs:
                self.p.stdin.write(json.dumps(o) + "\n")
            self.p.stdin.flush()

        t = threading.Thread(target=w)
        t.start()
        out = []
        for _ in objs:
            line = self.p.stdout.readline()
            if not line:
                raise RuntimeError("driver died in batch")
            out.append(json.loads(line))
        t.join()
        return out

    def close(self):
        try:
            self.p.stdin.close()
            self.p.wait(timeout=10)
        except Exception:
            self.p.kill()


# --------------------------------------------------------------------------
# context
# --------------------------------------------------------------------------
class Ctx:
    def __init__(self, prop: str, tier: str, seed: int):
        self.prop = prop
        self.tier = tier
        self.seed = seed
        self.rng = random.Random(seed)
        self.t0 = time.time()
        self.evaluations = 0
        self.nontrivial: set = set()
        self.samples: list = []
        self.dist = collections.Counter()
        self.violations: list = []  # (what, case)
        self.known_seen: dict = {}
        self.corr_breaks: list = []
        self.notes: list = []
        self.exhaustive = False
        self.rule = ""
        self.assumptions: list = []
        self.extra: dict = {}
        kf = json.loads((VERIF / "known_findings.json").read_text())
        self.known = [e for e in kf["findings"] if e["property"] == prop and e["status"] == "known"]
        self.budget_scale = 1.0

    # --- bookkeeping
    def thorough(self):
        return self.tier == "thorough"

    def n(self, quick: int, thorough: int) -> int:
        return int((thorough if self.thorough() else quick) * self.budget_scale)

    def count(self, key=None, nontrivial_key=None):
        self.evaluations += 1
        if key:
            self.dist[key] += 1
        if nontrivial_key is not None:
            self.nontrivial.add(nontrivial_key)

    def sample(self, case, cap=6):
        if len(self.samples) < cap:
            self.samples.append(case)

    def elapsed(self):
        return time.time() - self.t0

    # --- outcomes
    def known_finding(self, fid: str, what: str):
        self.known_seen.setdefault(fid, what)

    def violation(self, what: str, case):
        """A concrete input on which the implementation contradicts the property."""
        if len(self.violations) < 20:
            self.violations.append((what, case))

    def corr_break(self, op: str, case, impl, model):
        if len(self.corr_breaks) < 20:
            self.corr_breaks.append({"op": op, "case": case, "impl": impl, "model": model})

    def classify(self, case, what: str, classifiers=()):
        """Record an impl-vs-spec disagreement as known finding or violation.
        classifiers: iterable of (finding_id, predicate(case) -> bool)."""
        for fid, pred in classifiers:
            if any(k["id"] == fid for k in self.known) and pred(case):
                k = next(k for k in self.known if k["id"] == fid)
                self.known_finding(fid, k["what_fails"])
                return "known"
        self.violation(what, case)
        return "violation"


def write_replay(prop: str, payload: dict) -> Path:
    d = VERIF / "replays" / prop
    d.mkdir(parents=True, exist_ok=True)
    p = d / f"replay_{int(time.time())}_{os.getpid()}.json"
    p.write_text(json.dumps(payload, indent=1, default=str))
    return p


def write_evidence(ctx: Ctx, thms, discharged, axioms, problems, checker_cmd, level_note=""):
    cov = {
        "obligations": len(thms),
        "discharged": len(discharged),
        "checker_cmd": checker_cmd,
        "trusted_base": [
            "Lean 4.33 kernel",
            "axioms used by the listed theorems: " + (", ".join(axioms) if axioms else "none"),
            "correspondence check (differential testing of the Lean model against the Python implementation)",
            "translator tools/gen_tables.py (tables re-extracted from /repo on this run)",
        ],
        "theorems": thms,
        "not_discharged": [t for t in thms if t not in discharged],
        "proof_problems": problems,
        "evaluations": ctx.evaluations,
        "distinct_nontrivial": len(ctx.nontrivial),
        "rule": ctx.rule,
        "samples": ctx.samples or ["(no input explored)"],
        "distribution": dict(ctx.dist.most_common(60)),
        "exhaustive": ctx.exhaustive,
        "known_findings_seen": sorted(ctx.known_seen),
        "correspondence_breaks": ctx.corr_breaks[:5],
        "notes": ctx.notes,
    }
    cov.update(ctx.extra)
    ev = {
        "property_id": ctx.prop,
        "tier": ctx.tier,
        "seed": ctx.seed,
        # a run in which no obligation could be discharged (the Props module no longer builds) is not
        # proof-level evidence; it still has to be a valid evidence file next to its VIOLATION line
        "level": "proof" if discharged else "exploration",
        "coverage": cov,
        "assumptions": ctx.assumptions,
        "wall_s": round(ctx.elapsed(), 2),
        "violations": len(ctx.violations),
    }
    try:
        import jsonschema

        schema = json.loads(Path("/root/.vp/EVIDENCE.schema.json").read_text())
        try:
            jsonschema.validate(ev, schema)
        except jsonschema.ValidationError as e:
            ev["coverage"]["evidence_schema_error"] = str(e.message)[:300]
    except FileNotFoundError:
        pass
    (VERIF / "evidence").mkdir(exist_ok=True)
    (VERIF / "evidence" / f"{ctx.prop}.json").write_text(json.dumps(ev, indent=1, default=str))
    return ev


class Scratch:
    """Throw-away directory outside /repo and /verif."""

    def __enter__(self):
        self.d = Path(tempfile.mkdtemp(prefix="cbiverif_"))
        return self.d

    def __exit__(self, *a):
        shutil.rmtree(self.d, ignore_errors=True)


def run_cli(module: str, args, cwd, env_extra=None, timeout=300):
    """Run one of the real command-line front ends (`codebasin`, `codebasin.tree`,
    `codebasin.coverage`) from REPO's working tree in a fresh interpreter.
    Returns (returncode, stdout, stderr)."""
    env = dict(os.environ)
    env["PYTHONPATH"] = str(REPO)
    env.setdefault("PYTHONHASHSEED", "0")
    env["MPLBACKEND"] = "Agg"
    if env_extra:
        env.update(env_extra)
    p = subprocess.run(
        [sys.executable, "-m", module] + list(args), cwd=str(cwd), env=env, capture_output=True, text=True, timeout=timeout
    )
    return p.returncode, p.stdout, p.stderr
