import CbiVerif.Spec.Extract
/-! C11 helper lemmas about the property-level extractor alone. -/
set_option linter.unusedSimpArgs false
namespace CbiVerif.ExtractLemmas
open CbiVerif.Extract

theorem surviving_nil (ds : List (List Char)) : surviving ds [] = ds := by
  simp [surviving]

theorem nil_surviving (us : List (List Char)) : surviving [] us = [] := by
  simp [surviving]

theorem surviving_append (ds es us : List (List Char)) : surviving (ds ++ es) us = surviving ds us ++ surviving es us := by
  simp [surviving]

/-- cancelling by `us`, then by `vs` = cancelling by `us ++ vs` -/
theorem surviving_surviving (ds us vs : List (List Char)) : surviving (surviving ds us) vs = surviving ds (us ++ vs) := by
  simp only [surviving, List.filter_filter]
  congr 1
  funext d
  simp only [List.contains_eq_mem, List.mem_append, Bool.decide_or]
  cases decide (macroName d ∈ us) <;> cases decide (macroName d ∈ vs) <;> rfl

theorem Lists.append_empty (l : Lists) : l.append {} = l := by
  cases l; simp [Lists.append, surviving_nil]

theorem Lists.empty_append (l : Lists) : Lists.append {} l = l := by
  cases l; simp [Lists.append, nil_surviving]

theorem Lists.append_assoc (a b c : Lists) : (a.append b).append c = a.append (b.append c) := by
  simp [Lists.append, surviving_append, surviving_surviving]

theorem Lists.add_eq (l : Lists) (f : Flag) (v : List Char) : l.add f v = l.append (Lists.add {} f v) := by
  cases f <;> simp [Lists.add, Lists.append, surviving_nil, nil_surviving]

/-- the accumulator of the scan is a prefix of its result -/
theorem scan_acc : ∀ (xs : List (List Char)) (sp : Option Flag) (l : Lists),
    scan sp l xs = l.append (scan sp {} xs)
  | [], sp, l => by cases sp <;> simp [scan, Lists.append_empty]
  | a :: rest, some f, l => by
    simp only [scan]
    rw [scan_acc rest none (l.add f a), scan_acc rest none (Lists.add {} f a), Lists.add_eq l f a, Lists.append_assoc]
  | a :: rest, none, l => by
    simp only [scan]
    cases hr : reading a with
    | other => exact scan_acc rest none l
    | sep f => exact scan_acc rest (some f) l
    | att f v =>
      simp only []
      rw [scan_acc rest none (l.add f v), scan_acc rest none (Lists.add {} f v), Lists.add_eq l f v, Lists.append_assoc]

theorem scan_append : ∀ (xs ys : List (List Char)) (sp : Option Flag) (l : Lists),
    completeFrom sp xs = true → scan sp l (xs ++ ys) = scan none (scan sp l xs) ys
  | [], ys, none, l, _ => by simp [scan]
  | [], ys, some f, l, h => by simp [completeFrom] at h
  | a :: rest, ys, some f, l, h => by
    simp only [completeFrom] at h
    simp only [List.cons_append, scan]
    exact scan_append rest ys none _ h
  | a :: rest, ys, none, l, h => by
    simp only [completeFrom] at h
    simp only [List.cons_append, scan]
    cases hr : reading a with
    | other => simp only [hr] at h; exact scan_append rest ys none _ h
    | sep f => simp only [hr] at h; exact scan_append rest ys (some f) _ h
    | att f v => simp only [hr] at h; exact scan_append rest ys none _ h

/-- a complete prefix contributes its own lists, the rest is read independently -/
theorem lists_append (xs ys : List (List Char)) (h : Complete xs) :
    lists (xs ++ ys) = (lists xs).append (lists ys) := by
  unfold lists
  rw [scan_append xs ys none {} h, scan_acc ys none (scan none {} xs)]

theorem complete_append : ∀ (xs ys : List (List Char)) (sp : Option Flag),
    completeFrom sp xs = true → completeFrom none ys = true → completeFrom sp (xs ++ ys) = true
  | [], ys, none, _, h2 => by simpa using h2
  | [], ys, some f, h, _ => by simp [completeFrom] at h
  | a :: rest, ys, some f, h, h2 => by
    simp only [completeFrom] at h
    simp only [List.cons_append, completeFrom]
    exact complete_append rest ys none h h2
  | a :: rest, ys, none, h, h2 => by
    simp only [completeFrom] at h
    simp only [List.cons_append, completeFrom]
    cases hr : reading a with
    | other => simp only [hr] at h ⊢; exact complete_append rest ys none h h2
    | sep f => simp only [hr] at h ⊢; exact complete_append rest ys (some f) h h2
    | att f v => simp only [hr] at h ⊢; exact complete_append rest ys none h h2

theorem stripPrefix_append : ∀ (p r : List Char), stripPrefix p (p ++ r) = some r
  | [], r => by simp [stripPrefix]
  | p :: ps, r => by simp [stripPrefix, stripPrefix_append ps r]

theorem reading_sep (f : Flag) : reading f.text = .sep f := by cases f <;> decide

/-- a flag with a non-empty attached remainder is read as that flag and that remainder -/
theorem reading_att (f : Flag) (v : List Char) (hv : v ≠ []) : reading (f.text ++ v) = .att f v := by
  cases v with
  | nil => exact absurd rfl hv
  | cons c cs =>
    cases f <;> simp [reading, readingFrom, allFlags, Flag.text, stripPrefix]

theorem lists_item (it : Item) (h : it.WF) :
    Complete it.render ∧ ∀ g, (lists it.render).get g = (it.value? g).toList := by
  cases it with
  | sep f v =>
    constructor
    · simp [Complete, Item.render, completeFrom, reading_sep]
    · intro g
      simp only [lists, Item.render, scan, reading_sep, Item.value?]
      cases f <;> cases g <;> simp [Lists.add, Lists.get, nil_surviving]
  | att f v =>
    have hr := reading_att f v h
    constructor
    · simp [Complete, Item.render, completeFrom, hr]
    · intro g
      simp only [lists, Item.render, scan, hr, Item.value?]
      cases f <;> cases g <;> simp [Lists.add, Lists.get, nil_surviving]
  | other u =>
    have hr : reading u = .other := h
    constructor
    · simp [Complete, Item.render, completeFrom, hr]
    · intro g
      simp only [lists, Item.render, scan, hr, Item.value?]
      cases g <;> simp [Lists.get]

/-- every list but the definitions is a plain concatenation -/
theorem Lists.get_append (a b : Lists) (g : Flag) (hg : g ≠ .D) : (a.append b).get g = a.get g ++ b.get g := by
  cases g <;> simp [Lists.append, Lists.get] at hg ⊢

theorem Lists.defines_append (a b : Lists) : (a.append b).defines = surviving a.defines b.undefs ++ b.defines := rfl

/-- a command line built from items: it is complete; every list but the definitions is the sequence of that
flag's values (for `-U`: the names) in command-line order; the definitions are the `-D` values in force -/
theorem lists_items : ∀ (items : List Item), (∀ it ∈ items, it.WF) →
    Complete (renderAll items) ∧ (∀ g, g ≠ .D → (lists (renderAll items)).get g = items.filterMap (Item.value? g)) ∧
    (lists (renderAll items)).defines = inForce items
  | [], _ => ⟨by simp [Complete, renderAll, completeFrom], by intro g _; cases g <;> simp [renderAll, lists, scan, Lists.get],
      by simp [renderAll, lists, scan, inForce]⟩
  | it :: rest, h => by
    have hit := lists_item it (h it (by simp))
    have ih := lists_items rest (fun x hx => h x (by simp [hx]))
    have e : renderAll (it :: rest) = it.render ++ renderAll rest := by simp [renderAll]
    rw [e]
    refine ⟨complete_append _ _ none hit.1 ih.1, ?_, ?_⟩
    · intro g hg
      rw [lists_append _ _ hit.1, Lists.get_append _ _ _ hg, hit.2 g, ih.2.1 g hg]
      cases hv : it.value? g <;> simp [List.filterMap_cons, hv]
    · have hd := hit.2 .D
      have hu := ih.2.1 .U (by decide)
      simp only [Lists.get] at hd hu
      rw [lists_append _ _ hit.1, Lists.defines_append, hd, hu, ih.2.2]
      rfl

/-- without `-U` items the definitions in force are all `-D` values, in command-line order -/
theorem inForce_no_undef : ∀ (items : List Item), (∀ it ∈ items, it.value? .U = none) →
    inForce items = items.filterMap (Item.value? .D)
  | [], _ => rfl
  | it :: rest, h => by
    have hr : rest.filterMap (Item.value? .U) = [] := by
      rw [List.filterMap_eq_nil_iff]; intro x hx; exact h x (by simp [hx])
    simp only [inForce, hr, surviving_nil, inForce_no_undef rest (fun x hx => h x (by simp [hx]))]
    cases hv : it.value? .D <;> simp [List.filterMap_cons, hv]

/-- the definitions in force are a subsequence of the `-D` values: order is kept, nothing is invented -/
theorem inForce_sublist : ∀ (items : List Item), (inForce items).Sublist (items.filterMap (Item.value? .D))
  | [] => List.Sublist.refl _
  | it :: rest => by
    have ih := inForce_sublist rest
    simp only [inForce, surviving]
    cases hv : it.value? .D with
    | none => simpa [List.filterMap_cons, hv] using ih
    | some v =>
      simp only [List.filterMap_cons, hv, Option.toList]
      by_cases hk : (!(rest.filterMap (Item.value? .U)).contains (macroName v)) = true
      · simp only [List.filter_cons, hk, if_true, List.filter_nil, List.singleton_append]
        exact ih.cons_cons v
      · simp only [List.filter_cons, hk, if_false, List.filter_nil, List.nil_append]
        exact ih.cons v

/-- **which definitions are in force**: a `-D` value is in force at the end iff it is the value of some `-D` item
that no later `-U` item names -/
theorem mem_inForce (items : List Item) (d : List Char) :
    d ∈ inForce items ↔ ∃ pre it post, items = pre ++ it :: post ∧ it.value? .D = some d ∧
      macroName d ∉ post.filterMap (Item.value? .U) := by
  induction items with
  | nil => simp [inForce]
  | cons it rest ih =>
    simp only [inForce, List.mem_append, ih]
    constructor
    · rintro (h | ⟨pre, it', post, rfl, h1, h2⟩)
      · simp only [surviving, List.mem_filter, Option.mem_toList, Bool.not_eq_true', List.contains_eq_mem,
          decide_eq_false_iff_not] at h
        exact ⟨[], it, rest, rfl, h.1, h.2⟩
      · exact ⟨it :: pre, it', post, rfl, h1, h2⟩
    · rintro ⟨pre, it', post, he, h1, h2⟩
      cases pre with
      | nil =>
        simp only [List.nil_append, List.cons.injEq] at he
        obtain ⟨rfl, rfl⟩ := he
        left
        simp only [surviving, List.mem_filter, Option.mem_toList, Bool.not_eq_true', List.contains_eq_mem,
          decide_eq_false_iff_not]
        exact ⟨h1, h2⟩
      | cons p pre =>
        simp only [List.cons_append, List.cons.injEq] at he
        obtain ⟨rfl, rfl⟩ := he
        exact Or.inr ⟨pre, it', post, rfl, h1, h2⟩

end CbiVerif.ExtractLemmas
