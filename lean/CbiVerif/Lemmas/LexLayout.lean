import CbiVerif.Model.LexLayout
import CbiVerif.Model.Climb
/-!
# The lexer reads every admissible layout of a token list back as that list (C02)

Generalises `Lemmas/LexRoundtrip.lean` (one blank around every token) to arbitrary layouts: any run of white-space characters
before the first and after every token, and NO white space between two tokens that are `separable`.
`tokenize (layout w ts) = flagged w ts` for every list of tokens of the classes `lexOK` and every admissible `w`
(`tokenize_layout`).  The facts about the regenerated tables are closed by `decide`.  Core Lean only.
-/
namespace CbiVerif.LexLayout
open CbiVerif.PP CbiVerif.LexRT CbiVerif.Climb

/-- what may come after the token in the text: nothing, or a character that `follows` it -/
def restOK (t : Tok) (rest : List Char) : Bool :=
  match rest with
  | [] => true
  | c :: _ => follows t c

/-! ## facts about the regenerated tables -/

theorem ops_no_ws : (operators.all fun l => l.toList.all fun c => !isWs c) = true := by decide
theorem puncts_no_ws : (punctuators.all fun l => l.toList.all fun c => !isWs c) = true := by decide

/-! ## generic list lemmas -/

/-- a spelling `l` that does not continue `o ++ [c]` is a prefix of `o ++ c :: r` iff it is a prefix of `o` -/
theorem isPrefixOf_ext (l o : List Char) (c : Char) (r : List Char) (h : (o ++ [c]).isPrefixOf l = false) :
    l.isPrefixOf (o ++ c :: r) = l.isPrefixOf o := by
  induction l generalizing o with
  | nil => simp
  | cons a l ih =>
    cases o with
    | nil =>
      simp only [List.nil_append, List.isPrefixOf, Bool.and_true] at h
      have : (a == c) = false := by
        cases hh : (a == c)
        · rfl
        · simp only [beq_iff_eq] at hh; subst hh; simp at h
      simp [List.isPrefixOf, this]
    | cons b o =>
      simp only [List.cons_append, List.isPrefixOf] at h ⊢
      cases hab : (a == b)
      · simp
      · simp only [beq_iff_eq] at hab; subst hab
        simp only [beq_self_eq_true, Bool.true_and] at h ⊢
        exact ih o h

theorem matchAny_gen (lits : List String) (o rest : List Char)
    (hb : (lits.all fun l => !l.toList.contains ' ') = true)
    (hr : rest = [] ∨ ∃ c r, rest = c :: r ∧ noExt lits o c = true) :
    matchAny (o ++ rest) lits = matchAny (o ++ [' ']) lits := by
  unfold matchAny
  induction lits with
  | nil => rfl
  | cons l lits ih =>
    simp only [List.all_cons, Bool.and_eq_true, Bool.not_eq_eq_eq_not, Bool.not_true] at hb
    have e2 : startsWithL (o ++ [' ']) l.toList = l.toList.isPrefixOf o := isPrefixOf_sep ' ' _ _ _ hb.1
    have e1 : startsWithL (o ++ rest) l.toList = l.toList.isPrefixOf o := by
      rcases hr with rfl | ⟨c, r, rfl, hc⟩
      · simp [startsWithL]
      · simp only [noExt, List.all_cons, Bool.and_eq_true, Bool.not_eq_eq_eq_not, Bool.not_true] at hc
        exact isPrefixOf_ext _ _ _ _ hc.1
    have hr' : rest = [] ∨ ∃ c r, rest = c :: r ∧ noExt lits o c = true := by
      rcases hr with h | ⟨c, r, h, hc⟩
      · exact Or.inl h
      · simp only [noExt, List.all_cons, Bool.and_eq_true] at hc
        exact Or.inr ⟨c, r, h, hc.2⟩
    simp only [List.find?_cons, e1, e2]
    cases l.toList.isPrefixOf o
    · exact ih hb.2 hr'
    · rfl

theorem takeWhile_stop_gen (p : Char → Bool) (l rest : List Char) (hl : l.all p = true)
    (hr : rest = [] ∨ ∃ c r, rest = c :: r ∧ p c = false) : (l ++ rest).takeWhile p = l := by
  rcases hr with rfl | ⟨c, r, rfl, hc⟩
  · rw [List.append_nil]
    induction l with
    | nil => rfl
    | cons b l ih =>
      simp only [List.all_cons, Bool.and_eq_true] at hl
      simp [List.takeWhile, hl.1, ih hl.2]
  · exact takeWhile_stop p l c r hl hc

/-- a prefix test that succeeds puts the last character of the prefix into the list -/
theorem mem_of_isPrefixOf (o l : List Char) (c : Char) (h : (o ++ [c]).isPrefixOf l = true) : c ∈ l := by
  induction o generalizing l with
  | nil =>
    cases l with
    | nil => simp at h
    | cons a l =>
      simp only [List.nil_append, List.isPrefixOf, Bool.and_true, beq_iff_eq] at h
      subst h; simp
  | cons b o ih =>
    cases l with
    | nil => simp at h
    | cons a l =>
      simp only [List.cons_append, List.isPrefixOf, Bool.and_eq_true] at h
      exact List.mem_cons_of_mem _ (ih l h.2)

theorem noExt_of_not_mem (lits : List String) (o : List Char) (c : Char)
    (h : ∀ l ∈ lits, c ∉ l.toList) : noExt lits o c = true := by
  unfold noExt
  rw [List.all_eq_true]
  intro l hl
  cases hh : (o ++ [c]).isPrefixOf l.toList
  · rfl
  · exact absurd (mem_of_isPrefixOf o _ c hh) (h l hl)

/-! ## white space may follow every token -/

theorem ws_cases (c : Char) (h : isWs c = true) : c = ' ' ∨ c = '\t' ∨ c = '\n' ∨ c = '\r' := by
  unfold isWs at h
  simp only [Bool.or_eq_true, beq_iff_eq] at h
  rcases h with ((h | h) | h) | h
  · exact Or.inl h
  · exact Or.inr (Or.inl h)
  · exact Or.inr (Or.inr (Or.inl h))
  · exact Or.inr (Or.inr (Or.inr h))

theorem ws_facts (c : Char) (h : isWs c = true) :
    wordChar c = false ∧ identChar c = false ∧ c ≠ '.' ∧ c ≠ '+' ∧ c ≠ '-' := by
  rcases ws_cases c h with rfl | rfl | rfl | rfl <;> decide

theorem ws_not_in (lits : List String) (hl : (lits.all fun l => l.toList.all fun c => !isWs c) = true)
    (c : Char) (h : isWs c = true) : ∀ l ∈ lits, c ∉ l.toList := by
  intro l hm hc
  rw [List.all_eq_true] at hl
  have := hl l hm
  rw [List.all_eq_true] at this
  have := this c hc
  simp [h] at this

theorem exp_none (x c : Char) (h : ¬ (c = '+' ∨ c = '-')) : exponents.contains (String.ofList [x, c]) = false := by
  cases hh : exponents.contains (String.ofList [x, c])
  · rfl
  · exact absurd (exp_contains _ _ hh).2 h

theorem follows_ws (t : Tok) (c : Char) (ht : lexOK t = true) (h : isWs c = true) : follows t c = true := by
  obtain ⟨h1, h2, h3, h4, h5⟩ := ws_facts c h
  obtain ⟨kind, txt, tpw, tex⟩ := t
  unfold lexOK at ht
  cases kind
  case str => simp at ht
  case unknown => simp at ht
  all_goals simp only [follows]
  · have he := exp_none (txt.toList.getLast?.getD '0') c (by rintro (e | e) <;> contradiction)
    rw [h1, he]; simp [h3]
  · simp [h2]
  · exact noExt_of_not_mem _ _ _ (ws_not_in _ ops_no_ws c h)
  · simp only [Bool.and_eq_true]
    exact ⟨noExt_of_not_mem _ _ _ (ws_not_in _ ops_no_ws c h), noExt_of_not_mem _ _ _ (ws_not_in _ puncts_no_ws c h)⟩

/-! ## the candidates of `tokenize_one`, with anything admissible after the token -/

theorem number_go_gen (w rest : List Char) (hw : w.all wordChar = true)
    (hr : ∀ c r, rest = c :: r → wordChar c = false ∧ c ≠ '.')
    (hl : ∀ x c r, w.getLast? = some x → rest = c :: r → exponents.contains (String.ofList [x, c]) = false) :
    ∀ (fuel : Nat) (acc : List Char), w.length + 1 ≤ fuel →
      lexNumber.go fuel acc (w ++ rest) = (acc ++ w, rest) := by
  induction w with
  | nil =>
    intro fuel acc hf
    match fuel, hf with
    | f + 1, _ =>
      simp only [List.nil_append, List.append_nil]
      match rest, hr with
      | [], _ => simp [lexNumber.go]
      | [c], hr =>
        obtain ⟨h1, h2⟩ := hr c [] rfl
        have e : (isAlpha c || isDigit c || c == '_' || c == '.') = false := by
          unfold wordChar at h1; simp [h1, h2]
        simp only [lexNumber.go, e, Bool.false_eq_true, ↓reduceIte]
      | c :: c2 :: r2, hr =>
        obtain ⟨h1, h2⟩ := hr c (c2 :: r2) rfl
        have e : (isAlpha c || isDigit c || c == '_' || c == '.') = false := by
          unfold wordChar at h1; simp [h1, h2]
        have ha : isAlpha c = false := by
          unfold wordChar at h1; simp only [Bool.or_eq_false_iff] at h1; exact h1.1.1
        have : exponents.contains (String.ofList [c, c2]) = false := by
          cases hh : exponents.contains (String.ofList [c, c2])
          · rfl
          · have := (exp_contains _ _ hh).1; rw [ha] at this; exact absurd this (by decide)
        simp only [lexNumber.go, this, e, Bool.false_eq_true, ↓reduceIte]
  | cons x w ih =>
    intro fuel acc hf
    simp only [List.all_cons, Bool.and_eq_true] at hw
    match fuel, hf with
    | f + 1, hf =>
      have hf' : w.length + 1 ≤ f := by simp at hf; omega
      have hwc : (isAlpha x || isDigit x || x == '_' || x == '.') = true := by
        have := hw.1; unfold wordChar at this; simp only [Bool.or_eq_true] at this ⊢; exact Or.inl this
      have hl' : ∀ y c r, w.getLast? = some y → rest = c :: r → exponents.contains (String.ofList [y, c]) = false := by
        intro y c r hy hc
        refine hl y c r ?_ hc
        rw [List.getLast?_cons, hy]; rfl
      have key : ∀ (c2 : Char) (r2 : List Char), w ++ rest = c2 :: r2 →
          exponents.contains (String.ofList [x, c2]) = false := by
        intro c2 r2 e
        cases w with
        | nil =>
          simp only [List.nil_append] at e
          exact hl x c2 r2 rfl e
        | cons d w' =>
          simp only [List.cons_append, List.cons.injEq] at e
          simp only [List.all_cons, Bool.and_eq_true] at hw
          rw [← e.1]
          exact exp_none x d (wordChar_not_sign d hw.2.1)
      have ihw := ih hw.2 hl' f (acc ++ [x]) hf'
      simp only [List.cons_append, lexNumber.go]
      cases hrr : w ++ rest with
      | nil =>
        rw [hrr] at ihw
        simp only [hwc, ↓reduceIte, ihw]
        have : w = [] ∧ rest = [] := by simpa using hrr
        simp [this.1, this.2]
      | cons c2 r2 =>
        simp only [key c2 r2 hrr, Bool.false_eq_true, ↓reduceIte, hwc]
        rw [← hrr, ihw]
        simp

theorem lexNumber_num_gen (d : Char) (w rest : List Char) (hd : isDigit d = true) (hw : w.all wordChar = true)
    (hr : ∀ c r, rest = c :: r → wordChar c = false ∧ c ≠ '.')
    (hl : ∀ x c r, w.getLast? = some x → rest = c :: r → exponents.contains (String.ofList [x, c]) = false) :
    lexNumber (d :: (w ++ rest)) = some (d :: w, rest) := by
  have hdot : d ≠ '.' := by intro e; subst e; exact absurd hd (by decide)
  rw [lexNumber_eq d _ hdot]
  simp only [hd, ↓reduceIte]
  rw [number_go_gen w rest hw hr hl _ _ (by simp; omega)]
  rfl

theorem lexIdent_word_gen (c : Char) (w rest : List Char) (hd : isDigit c = false)
    (hc : identChar c = true) (hw : w.all identChar = true)
    (hr : rest = [] ∨ ∃ a r, rest = a :: r ∧ identChar a = false) :
    lexIdent (c :: (w ++ rest)) = some (c :: w, rest) := by
  unfold lexIdent
  have htw : ((c :: w) ++ rest).takeWhile (fun c => isAlnum c || c == '_') = c :: w :=
    takeWhile_stop_gen identChar (c :: w) rest (by simp [hc, hw]) hr
  simp only [List.cons_append] at htw
  simp only [hd, Bool.false_eq_true, ↓reduceIte, htw, List.isEmpty_cons, List.length_cons]
  congr 2
  simp

theorem restOK_cases (t : Tok) (rest : List Char) (h : restOK t rest = true) :
    rest = [] ∨ ∃ c r, rest = c :: r ∧ follows t c = true := by
  cases rest with
  | nil => exact Or.inl rfl
  | cons c r => exact Or.inr ⟨c, r, rfl, h⟩

/-- **one token**: whatever admissible text comes after it, `tokenize_one` reads exactly the token -/
theorem tokenizeOne_gen (t : Tok) (rest : List Char) (pw : Bool) (h : lexOK t = true) (hr : restOK t rest = true) :
    tokenizeOne (spellChars t ++ rest) pw = some (⟨t.kind, t.text, pw, true⟩, rest) := by
  have hr := restOK_cases t rest hr
  obtain ⟨kind, txt, tpw, tex⟩ := t
  unfold lexOK at h
  cases kind
  case str => simp at h
  case unknown => simp at h
  all_goals simp only [spellChars] at h ⊢
  · -- num
    unfold numOK at h
    cases hs : txt.toList with
    | nil => rw [hs] at h; exact absurd h (by simp)
    | cons d w =>
      rw [hs] at h
      simp only [Bool.and_eq_true, Bool.not_eq_eq_eq_not, Bool.not_true] at h
      have e : txt = String.ofList (d :: w) := by rw [← hs]; simp
      have hr1 : ∀ c r, rest = c :: r → wordChar c = false ∧ c ≠ '.' := by
        intro c r hc
        rcases hr with h0 | ⟨c', r', h1, hf⟩
        · rw [h0] at hc; exact absurd hc (by simp)
        · rw [h1] at hc; simp only [List.cons.injEq] at hc; obtain ⟨rfl, rfl⟩ := hc
          simp only [follows, Bool.and_eq_true, Bool.not_eq_eq_eq_not, Bool.not_true, bne_iff_ne, ne_eq] at hf
          exact ⟨hf.1.1, hf.1.2⟩
      have hl1 : ∀ x c r, w.getLast? = some x → rest = c :: r →
          exponents.contains (String.ofList [x, c]) = false := by
        intro x c r hx hc
        rcases hr with h0 | ⟨c', r', h1, hf⟩
        · rw [h0] at hc; exact absurd hc (by simp)
        · rw [h1] at hc; simp only [List.cons.injEq] at hc; obtain ⟨rfl, rfl⟩ := hc
          simp only [follows, Bool.and_eq_true, Bool.not_eq_eq_eq_not, Bool.not_true, hs] at hf
          have := hf.2
          rw [List.getLast?_cons, hx] at this
          exact this
      unfold tokenizeOne
      simp only [List.cons_append, lexNumber_num_gen d w rest h.1.1 h.2 hr1 hl1, e]
  · -- chr
    unfold chrOK at h
    have e : txt = String.ofList txt.toList := by simp
    unfold tokenizeOne
    split at h
    · rename_i c heq
      simp only [Bool.and_eq_true, bne_iff_ne, ne_eq] at h
      have hq : ('\'' : Char) ≠ '.' := by decide
      rw [heq] at e ⊢
      simp only [List.cons_append, List.nil_append]
      rw [lexNumber_none '\'' _ (by decide) hq, lexChar_plain c _ h.1.1 h.1.2, e]
    · rename_i c r heq
      rw [heq] at e ⊢
      simp only [List.cons_append]
      rw [lexNumber_none '\'' _ (by decide) (by decide), List.append_assoc, List.singleton_append,
        lexChar_backslash c r _ h, e]
    · exact absurd h (by simp)
  · -- ident
    unfold identOK at h
    cases hs : txt.toList with
    | nil => rw [hs] at h; exact absurd h (by simp)
    | cons c w =>
      rw [hs] at h
      simp only [Bool.and_eq_true, Bool.not_eq_eq_eq_not, Bool.not_true, bne_iff_ne, ne_eq] at h
      obtain ⟨⟨⟨⟨⟨⟨h1, h2⟩, h3⟩, h4⟩, _⟩, h6⟩, h7⟩ := h
      have e : txt = String.ofList (c :: w) := by rw [← hs]; simp
      have hr2 : rest = [] ∨ ∃ a r, rest = a :: r ∧ identChar a = false := by
        rcases hr with h0 | ⟨c', r', h1, hf⟩
        · exact Or.inl h0
        · simp only [follows, Bool.not_eq_eq_eq_not, Bool.not_true] at hf
          exact Or.inr ⟨c', r', h1, hf⟩
      unfold tokenizeOne
      simp only [List.cons_append, lexNumber_none c _ h1 h2, lexChar_none c _ h3, lexString_none c _ h4,
        lexIdent_word_gen c w rest h1 h6 h7 hr2, e]
  · -- op
    unfold opOK at h
    cases hs : txt.toList with
    | nil => rw [hs] at h; exact absurd h (by simp)
    | cons c w =>
      rw [hs] at h
      simp only [Bool.and_eq_true, beq_iff_eq] at h
      obtain ⟨f1, f2, f3, f4⟩ := symStart_fails c (w ++ rest) h.1
      have hr3 : rest = [] ∨ ∃ a r, rest = a :: r ∧ noExt operators (c :: w) a = true := by
        rcases hr with h0 | ⟨c', r', h1, hf⟩
        · exact Or.inl h0
        · simp only [follows, hs] at hf
          exact Or.inr ⟨c', r', h1, hf⟩
      have hm : matchAny ((c :: w) ++ rest) operators = some txt := by
        rw [matchAny_gen operators (c :: w) rest ops_no_blank hr3]; exact h.2
      have hl : txt.length = (c :: w).length := by rw [← hs]; exact String.length_toList.symm
      unfold tokenizeOne
      simp only [List.cons_append] at hm ⊢
      simp only [f1, f2, f3, f4, hm]
      congr 2
      rw [hl, ← List.cons_append]
      simp
  · -- punct
    unfold punctOK at h
    cases hs : txt.toList with
    | nil => rw [hs] at h; exact absurd h (by simp)
    | cons c w =>
      rw [hs] at h
      simp only [Bool.and_eq_true, beq_iff_eq] at h
      obtain ⟨f1, f2, f3, f4⟩ := symStart_fails c (w ++ rest) h.1.1
      have hr3 : rest = [] ∨ ∃ a r, rest = a :: r ∧ noExt operators (c :: w) a = true := by
        rcases hr with h0 | ⟨c', r', h1, hf⟩
        · exact Or.inl h0
        · simp only [follows, hs, Bool.and_eq_true] at hf
          exact Or.inr ⟨c', r', h1, hf.1⟩
      have hr4 : rest = [] ∨ ∃ a r, rest = a :: r ∧ noExt punctuators (c :: w) a = true := by
        rcases hr with h0 | ⟨c', r', h1, hf⟩
        · exact Or.inl h0
        · simp only [follows, hs, Bool.and_eq_true] at hf
          exact Or.inr ⟨c', r', h1, hf.2⟩
      have hm0 : matchAny ((c :: w) ++ rest) operators = none := by
        rw [matchAny_gen operators (c :: w) rest ops_no_blank hr3]; exact h.1.2
      have hm : matchAny ((c :: w) ++ rest) punctuators = some txt := by
        rw [matchAny_gen punctuators (c :: w) rest puncts_no_blank hr4]; exact h.2
      have hl : txt.length = (c :: w).length := by rw [← hs]; exact String.length_toList.symm
      unfold tokenizeOne
      simp only [List.cons_append] at hm hm0 ⊢
      simp only [f1, f2, f3, f4, hm0, hm]
      congr 2
      rw [hl, ← List.cons_append]
      simp

/-! ## the loop -/

theorem takeWhile_ws (lead s : List Char) (hl : lead.all isWs = true)
    (h : s = [] ∨ ∃ c r, s = c :: r ∧ isWs c = false) : (lead ++ s).takeWhile isWs = lead :=
  takeWhile_stop_gen isWs lead s hl h

/-- what follows a token in an admissible layout is admissible after that token -/
theorem restOK_body (t : Tok) (g : List Char) (gs : List (List Char)) (ts : List Tok) (ht : lexOK t = true)
    (hg : g.all isWs = true) (hs : (match ts with | t2 :: _ => !g.isEmpty || separable t t2 | [] => true) = true)
    (hgs : gapsOK gs ts = true) : restOK t (g ++ body gs ts) = true := by
  cases g with
  | cons a g' =>
    simp only [List.all_cons, Bool.and_eq_true] at hg
    exact follows_ws t a ht hg.1
  | nil =>
    simp only [List.nil_append]
    match ts, gs, hs, hgs with
    | [], [], _, _ => rfl
    | [], _ :: _, _, h => simp [gapsOK] at h
    | t2 :: ts', [], _, h => simp [gapsOK] at h
    | t2 :: ts', g2 :: gs', hs, _ =>
      simp only [List.isEmpty_nil, Bool.not_true, Bool.false_or] at hs
      unfold separable at hs
      simp only [body]
      cases hsp : spellChars t2 with
      | nil => rw [hsp] at hs; exact absurd hs (by simp)
      | cons c r => rw [hsp] at hs; exact hs

theorem body_head (gs : List (List Char)) (ts : List Tok) (h : ∀ t ∈ ts, lexOK t = true) (hg : gapsOK gs ts = true) :
    (ts = [] ∧ body gs ts = []) ∨ ∃ c r, body gs ts = c :: r ∧ isWs c = false := by
  match ts, gs, hg with
  | [], [], _ => exact Or.inl ⟨rfl, rfl⟩
  | [], _ :: _, h => simp [gapsOK] at h
  | _ :: _, [], h => simp [gapsOK] at h
  | t :: ts', g :: gs', _ =>
    obtain ⟨c, r, e, hc⟩ := spell_head t (h t (by simp))
    exact Or.inr ⟨c, r ++ (g ++ body gs' ts'), by simp [body, e], hc⟩

theorem go_layout (ts : List Tok) (h : ∀ t ∈ ts, lexOK t = true) :
    ∀ (gs : List (List Char)), gapsOK gs ts = true →
    ∀ (fuel : Nat) (pw : Bool) (acc : List Tok) (lead : List Char), lead.all isWs = true → ts.length + 1 ≤ fuel →
      tokenize.go fuel (lead ++ body gs ts) pw acc = acc ++ flag (pw || !lead.isEmpty) gs ts := by
  induction ts with
  | nil =>
    intro gs hg fuel pw acc lead hl hf
    match gs, hg with
    | [], _ =>
      match fuel, hf with
      | f + 1, _ =>
        have htw : (lead ++ []).takeWhile isWs = lead := takeWhile_ws lead [] hl (Or.inl rfl)
        simp only [body, flag, List.append_nil] at htw ⊢
        simp [tokenize.go, htw]
    | _ :: _, hg => simp [gapsOK] at hg
  | cons t ts ih =>
    intro gs hg fuel pw acc lead hl hf
    have ht := h t (by simp)
    have hts : ∀ t' ∈ ts, lexOK t' = true := fun t' m => h t' (by simp [m])
    match gs, hg with
    | [], hg => simp [gapsOK] at hg
    | g :: gs', hg =>
      simp only [gapsOK, Bool.and_eq_true] at hg
      obtain ⟨⟨hgw, hsep⟩, hgs⟩ := hg
      match fuel, hf with
      | f + 1, hf =>
        have hf' : ts.length + 1 ≤ f := by simp at hf; omega
        obtain ⟨c, r, e, hc⟩ := spell_head t ht
        have hbody : body (g :: gs') (t :: ts) = c :: (r ++ (g ++ body gs' ts)) := by simp [body, e]
        have htw : (lead ++ c :: (r ++ (g ++ body gs' ts))).takeWhile isWs = lead :=
          takeWhile_ws lead _ hl (Or.inr ⟨c, _, rfl, hc⟩)
        have h1 := tokenizeOne_gen t (g ++ body gs' ts) (pw || !lead.isEmpty) ht (restOK_body t g gs' ts ht hgw hsep hgs)
        rw [e] at h1
        simp only [List.cons_append] at h1
        rw [hbody]
        simp only [tokenize.go, htw, List.drop_left, h1]
        rw [ih hts gs' hgs f false _ g hgw hf']
        simp [flag]

theorem body_length (gs : List (List Char)) (ts : List Tok) (h : ∀ t ∈ ts, lexOK t = true) (hg : gapsOK gs ts = true) :
    ts.length ≤ (body gs ts).length := by
  induction ts generalizing gs with
  | nil => simp
  | cons t ts ih =>
    match gs, hg with
    | [], hg => simp [gapsOK] at hg
    | g :: gs', hg =>
      simp only [gapsOK, Bool.and_eq_true] at hg
      obtain ⟨c, r, e, _⟩ := spell_head t (h t (by simp))
      have := ih gs' (fun t' m => h t' (by simp [m])) hg.2
      simp only [body, e, List.length_append, List.length_cons]
      omega

/-- **Round trip for every admissible layout.** -/
theorem tokenize_layout (w : Layout) (ts : List Tok) (h : ∀ t ∈ ts, lexOK t = true) (hw : admissible w ts = true) :
    tokenize (layout w ts) = flagged w ts := by
  simp only [admissible, Bool.and_eq_true] at hw
  unfold tokenize layout flagged
  simp only [String.toList_ofList, String.length_ofList]
  rw [go_layout ts h w.gaps hw.2 _ false [] w.lead hw.1
    (by have := body_length w.gaps ts h hw.2; simp only [List.length_append]; omega)]
  simp

/-! ## what the flags cannot change: kinds and texts -/

theorem flag_key (p : Bool) (gs : List (List Char)) (ts : List Tok) (h : gapsOK gs ts = true) :
    (flag p gs ts).map (fun t => (t.kind, t.text)) = ts.map (fun t => (t.kind, t.text)) := by
  induction ts generalizing gs p with
  | nil => cases gs <;> simp [flag]
  | cons t ts ih =>
    match gs, h with
    | [], h => simp [gapsOK] at h
    | g :: gs', h =>
      simp only [gapsOK, Bool.and_eq_true] at h
      simp [flag, ih _ gs' h.2]

/-! ## the two extreme layouts are admissible -/

theorem gapsOK_blanks (ts : List Tok) : gapsOK (List.replicate ts.length [' ']) ts = true := by
  induction ts with
  | nil => rfl
  | cons t ts ih =>
    simp only [List.length_cons, List.replicate_succ, gapsOK, ih, Bool.and_true]
    have : isWs ' ' = true := by decide
    cases ts <;> simp [this]

theorem blanks_admissible (ts : List Tok) : admissible (blanks ts.length) ts = true := by
  simp only [admissible, blanks, gapsOK_blanks, Bool.and_true]; decide

theorem gapsOK_tight : ∀ (ts : List Tok), gapsOK (tightGaps ts) ts = true
  | [] => rfl
  | [_] => rfl
  | t :: t2 :: ts => by
    have ih := gapsOK_tight (t2 :: ts)
    simp only [tightGaps, gapsOK, ih, Bool.and_true]
    by_cases hs : separable t t2 = true
    · simp [hs]
    · simp only [hs, Bool.false_eq_true, ↓reduceIte, Bool.or_false]; decide

theorem tight_admissible (ts : List Tok) : admissible (tight ts) ts = true := by
  simp [admissible, tight, gapsOK_tight]

/-! ## pairs that are always separable: a parenthesis next to anything -/

theorem ops_no_paren : (operators.all fun l => !l.toList.contains '(' && !l.toList.contains ')') = true := by decide
theorem puncts_short : (punctuators.all fun l => decide (l.toList.length ≤ 1)) = true := by decide
theorem ops_not_paren_led : (operators.all fun l => match l.toList with | x :: _ :: _ => x != '(' && x != ')' | _ => true) = true := by
  decide

theorem no_paren_in_ops (c : Char) (hc : c = '(' ∨ c = ')') : ∀ l ∈ operators, c ∉ l.toList := by
  intro l hl hm
  have := (List.all_eq_true.mp ops_no_paren) l hl
  simp only [Bool.and_eq_true, Bool.not_eq_eq_eq_not, Bool.not_true, List.contains_eq_mem, decide_eq_false_iff_not] at this
  rcases hc with rfl | rfl
  · exact this.1 hm
  · exact this.2 hm

/-- a spelling longer than every entry of the list is continued by none -/
theorem noExt_short (lits : List String) (h : (lits.all fun l => decide (l.toList.length ≤ 1)) = true)
    (a : Char) (s : List Char) (c : Char) : noExt lits (a :: s) c = true := by
  unfold noExt
  rw [List.all_eq_true]
  intro l hl
  have hlen := of_decide_eq_true ((List.all_eq_true.mp h) l hl)
  cases hh : ((a :: s) ++ [c]).isPrefixOf l.toList
  · rfl
  · have := (List.isPrefixOf_iff_prefix.mp hh).length_le
    simp at this; omega

/-- a one-character spelling that starts no longer entry of the list is continued by none -/
theorem noExt_single (lits : List String) (a : Char)
    (h : (lits.all fun l => match l.toList with | x :: _ :: _ => x != a | _ => true) = true) (c : Char) :
    noExt lits [a] c = true := by
  unfold noExt
  rw [List.all_eq_true]
  intro l hl
  have := (List.all_eq_true.mp h) l hl
  cases hs : l.toList with
  | nil => simp
  | cons x r =>
    cases r with
    | nil => simp [List.isPrefixOf]
    | cons y r' =>
      rw [hs] at this
      simp only [bne_iff_ne, ne_eq] at this
      have : (a == x) = false := by simp [Ne.symm this]
      simp [List.isPrefixOf, this]

/-- `(` and `)` may follow every token -/
theorem follows_paren (t : Tok) (c : Char) (ht : lexOK t = true) (hc : c = '(' ∨ c = ')') : follows t c = true := by
  have hf : wordChar c = false ∧ identChar c = false ∧ c ≠ '.' ∧ ¬ (c = '+' ∨ c = '-') := by
    rcases hc with rfl | rfl <;> decide
  obtain ⟨h1, h2, h3, h4⟩ := hf
  obtain ⟨kind, txt, tpw, tex⟩ := t
  unfold lexOK at ht
  cases kind
  case str => simp at ht
  case unknown => simp at ht
  all_goals simp only [follows]
  · have he := exp_none (txt.toList.getLast?.getD '0') c h4
    rw [h1, he]; simp [h3]
  · simp [h2]
  · exact noExt_of_not_mem _ _ _ (no_paren_in_ops c hc)
  · simp only [Bool.and_eq_true]
    refine ⟨noExt_of_not_mem _ _ _ (no_paren_in_ops c hc), ?_⟩
    simp only at ht
    unfold punctOK at ht
    cases hs : txt.toList with
    | nil => rw [hs] at ht; exact absurd ht (by simp)
    | cons a s => exact noExt_short _ puncts_short a s c

/-- every character may follow `(` and `)` -/
theorem paren_follows (c : Char) : follows lpTok c = true ∧ follows rpTok c = true := by
  have hp : ∀ a : Char, (punctuators.all fun l => match l.toList with | x :: _ :: _ => x != a | _ => true) = true := by
    intro a
    rw [List.all_eq_true]
    intro l hl
    have := of_decide_eq_true ((List.all_eq_true.mp puncts_short) l hl)
    cases hs : l.toList with
    | nil => rfl
    | cons x r =>
      cases r with
      | nil => rfl
      | cons y r' => rw [hs] at this; simp at this
  have ho : ∀ a : Char, (a = '(' ∨ a = ')') →
      (operators.all fun l => match l.toList with | x :: _ :: _ => x != a | _ => true) = true := by
    intro a ha
    rw [List.all_eq_true]
    intro l hl
    have := (List.all_eq_true.mp ops_not_paren_led) l hl
    cases hs : l.toList with
    | nil => rfl
    | cons x r =>
      cases r with
      | nil => rfl
      | cons y r' =>
        rw [hs] at this
        simp only [Bool.and_eq_true] at this
        rcases ha with rfl | rfl
        · exact this.1
        · exact this.2
  constructor
  · show (noExt operators ['('] c && noExt punctuators ['('] c) = true
    rw [noExt_single _ _ (ho _ (Or.inl rfl)), noExt_single _ _ (hp _)]; rfl
  · show (noExt operators [')'] c && noExt punctuators [')'] c) = true
    rw [noExt_single _ _ (ho _ (Or.inr rfl)), noExt_single _ _ (hp _)]; rfl

/-- **`(` and `)` need no white space on either side**, whatever the neighbour -/
theorem separable_paren (t : Tok) (ht : lexOK t = true) :
    separable lpTok t = true ∧ separable rpTok t = true ∧ separable t lpTok = true ∧ separable t rpTok = true := by
  obtain ⟨c, r, e, _⟩ := spell_head t ht
  refine ⟨?_, ?_, ?_, ?_⟩
  · simp only [separable, e]; exact (paren_follows c).1
  · simp only [separable, e]; exact (paren_follows c).2
  · exact follows_paren t '(' ht (Or.inl rfl)
  · exact follows_paren t ')' ht (Or.inr rfl)

/-- an operator or punctuator may be followed directly by an identifier, a number or a character constant, whenever no
    operator spelling continues it with that character (always true for the regenerated lists: no operator contains a
    letter, a digit, `_` or a quote) -/
theorem ops_no_word : (operators.all fun l => l.toList.all fun c => !identChar c && c != '\'') = true := by decide

theorem separable_op_word (o t : Tok) (ho : o.kind = .op) (ht : lexOK t = true)
    (hk : t.kind = .num ∨ t.kind = .ident ∨ t.kind = .chr) : separable o t = true := by
  obtain ⟨kind, txt, tpw, tex⟩ := t
  obtain ⟨okind, otxt, opw, oex⟩ := o
  simp only at ho hk; subst ho
  have hnot : ∀ c : Char, (identChar c = true ∨ c = '\'') → ∀ l ∈ operators, c ∉ l.toList := by
    intro c hc l hl hm
    have := (List.all_eq_true.mp ((List.all_eq_true.mp ops_no_word) l hl)) c hm
    simp only [Bool.and_eq_true, Bool.not_eq_eq_eq_not, Bool.not_true, bne_iff_ne, ne_eq] at this
    rcases hc with hc | hc
    · rw [hc] at this; exact absurd this.1 (by simp)
    · exact this.2 hc
  unfold lexOK at ht
  rcases hk with rfl | rfl | rfl
  · simp only [numOK] at ht
    cases hs : txt.toList with
    | nil => rw [hs] at ht; exact absurd ht (by simp)
    | cons d w =>
      rw [hs] at ht
      simp only [Bool.and_eq_true] at ht
      have hd : identChar d = true := by
        have := ht.1.1; unfold identChar isAlnum; unfold isDigit at this
        simp [Char.isAlphanum, this]
      simp only [separable, spellChars, hs, follows]
      exact noExt_of_not_mem _ _ _ (hnot d (Or.inl hd))
  · simp only [identOK] at ht
    cases hs : txt.toList with
    | nil => rw [hs] at ht; exact absurd ht (by simp)
    | cons d w =>
      rw [hs] at ht
      simp only [Bool.and_eq_true] at ht
      simp only [separable, spellChars, hs, follows]
      exact noExt_of_not_mem _ _ _ (hnot d (Or.inl ht.1.2))
  · simp only [separable, spellChars, follows]
    exact noExt_of_not_mem _ _ _ (hnot '\'' (Or.inr rfl))

end CbiVerif.LexLayout
